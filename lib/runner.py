"""run_property: regenerate -> (validate) -> solve -> classify -> replay -> evidence."""
import json
import os
import re
import shutil
import time

import dcv
from replay import native_replay, write_replay_file


def _budget_workers(hs, jobs):
    if jobs:
        return jobs
    total_mem = 56.0
    mem = max([h.get("mem_gb", 16) for h in hs] or [16])
    return max(1, min(14, int(total_mem // mem), len(hs)))


def run_property(plan, prop, tier, seed, keep=False, only=None, jobs=0):
    t_start = time.time()
    ws = dcv.Scratch(keep=keep)
    logs_dir = os.path.join(dcv.OUT, "logs", prop, tier)
    shutil.rmtree(logs_dir, ignore_errors=True)
    os.makedirs(logs_dir, exist_ok=True)
    meta = plan.META
    inconclusive = []
    violations = []
    known_hits = []

    # 1. regenerate
    try:
        build = plan.build(ws, tier, seed, "solve")
    except dcv.RewriteError as e:
        print("INCONCLUSIVE property=%s regenerate failed: %s" % (prop, e))
        _evidence(prop, tier, seed, meta, None, [], [], ["regenerate failed: %s" % e], t_start, 0, [], partial=True)
        return 2

    hs = plan.harnesses(tier, seed)
    if only:
        hs = [h for h in hs if only in h["name"]]
    # seed only permutes scheduling order
    if seed:
        import random
        random.Random(seed).shuffle(hs)
        hs.sort(key=lambda h: -h.get("timeout_s", 600))

    # 2. optional encoder validation (native tests through the models)
    validation = []
    if hasattr(plan, "validate") and not only:
        try:
            validation = plan.validate(ws, build, logs_dir)
        except Exception as e:  # noqa
            validation = [{"name": "validate", "ok": False, "detail": repr(e)}]
        for v in validation:
            if not v.get("ok"):
                inconclusive.append("encoder validation failed: %s: %s" % (v.get("name"), v.get("detail", "")))

    # 3. codegen once per crate, then solve in parallel
    results = []
    base_targets = {}
    codegen_fail = False
    crate_keys = sorted(set(h["crate"] for h in hs))

    def _cg(key):
        c = build["crates"][key]
        bt = ws.path("base_" + key)
        ok, out = dcv.kani_codegen(c["dir"], bt, features=c.get("features", ()),
                                   log_path=os.path.join(logs_dir, "codegen_%s.log" % key))
        return key, bt, ok, out

    for key, bt, ok, out in dcv.run_parallel([(lambda k=k: _cg(k)) for k in crate_keys], max_workers=4):
        if not ok:
            codegen_fail = True
            tail = [l for l in out.strip().split("\n") if l.strip()][-15:]
            inconclusive.append("codegen failed for crate %s: %s" % (key, " | ".join(tail)[:1500]))
        base_targets[key] = bt

    if not codegen_fail:
        workers = jobs or 14
        budget = dcv.MemBudget(total_gb=float(os.environ.get("VERIF_MEM_GB", "56")), max_jobs=workers)
        dcv.log("%s/%s: %d harnesses, up to %d in flight within %.0f GB" % (prop, tier, len(hs), workers, budget.total))

        def _run(h):
            c = build["crates"][h["crate"]]
            got = budget.acquire(h.get("mem_gb", 16))
            try:
                r = dcv.run_harness(c["dir"], base_targets[h["crate"]], h, ws.root, logs_dir, features=c.get("features", ()))
            finally:
                budget.release(got)
            dcv.log("  %-40s %-8s %6.1fs %s" % (h["name"], r.status, r.wall_s, r.detail[:100]))
            return r

        results = dcv.run_parallel([(lambda h=h: _run(h)) for h in hs], max_workers=max(len(hs), 1))

    # 4. classify
    kf = dcv.load_known_findings()
    open_findings = {f["id"]: f for f in kf.get("findings", []) if f.get("property") == prop}
    nontrivial = 0
    evaluations = 0
    samples = []
    replay_records = []
    for h, r in zip(hs, results):
        evaluations += r.checks_total
        sat = [k for k, v in r.covers.items() if v == "SATISFIED"]
        unsat = [k for k, v in r.covers.items() if v != "SATISFIED"]
        want_fail = h.get("finding")
        if r.status == "success":
            if unsat or (h.get("min_covers", 1) > len(sat)):
                inconclusive.append("harness %s is vacuous: covers not satisfied: %s (satisfied %d, need %d)"
                                    % (h["name"], unsat, len(sat), h.get("min_covers", 1)))
            else:
                nontrivial += 1
            continue
        if r.status == "failure":
            # 5. replay
            c = build["crates"][h["crate"]]
            rec = _replay_failure(plan, prop, tier, seed, ws, build, base_targets, h, r, logs_dir)
            replay_records.append(rec)
            if rec["reproduced"]:
                if want_fail and want_fail in open_findings:
                    known_hits.append((want_fail, open_findings[want_fail], rec))
                    nontrivial += 1
                else:
                    violations.append((h, r, rec))
            else:
                inconclusive.append("harness %s: solver counterexample did not reproduce natively (%s) -> encoder/model "
                                    "problem, not reported as a violation" % (h["name"], rec.get("detail", "")))
            continue
        inconclusive.append("harness %s: %s %s" % (h["name"], r.status, r.detail))

    # witness harnesses of known findings that now pass simply print nothing.
    for fid, f, rec in known_hits:
        print("KNOWN-FINDING: property=%s %s [%s] replay=%s" % (prop, f.get("what", f.get("description", "")), fid, rec["path"]))
    for h, r, rec in violations:
        print("VIOLATION property=%s replay=%s" % (prop, rec["path"]))
        print("  harness %s: %s" % (h["name"], "; ".join(c["description"] for c in r.checks_failed[:3])))

    partial = bool(only)
    for h, r in zip(hs, results):
        for k, v in r.covers.items():
            if v == "SATISFIED" and len(samples) < 12:
                samples.append({"harness": h["name"], "witness_reachable": k})
    for rec in replay_records:
        samples.append({"harness": rec["harness"], "counterexample_values": rec.get("values", [])[:24],
                        "reproduced_natively": rec["reproduced"]})
    _evidence(prop, tier, seed, meta, build, hs, results, inconclusive, t_start, len(violations), samples,
              validation=validation, known=[k[0] for k in known_hits], nontrivial=nontrivial,
              evaluations=evaluations, partial=partial, replays=replay_records)

    for msg in inconclusive:
        print("INCONCLUSIVE property=%s %s" % (prop, msg))
    if violations:
        return 1
    if inconclusive or partial:
        return 2
    print("HELD property=%s tier=%s harnesses=%d checks=%d wall=%.0fs" % (prop, tier, len(hs), evaluations, time.time() - t_start))
    return 0


def _replay_failure(plan, prop, tier, seed, ws, build, base_targets, h, r, logs_dir):
    c = build["crates"][h["crate"]]
    tests = dcv.concrete_playback(c["dir"], base_targets[h["crate"]], h["name"], ws.root, logs_dir,
                                 features=c.get("features", ()), timeout=max(900, 3 * h.get("timeout_s", 600)),
                                 mem_gb=max(24, 2 * h.get("mem_gb", 16)))
    rec = {"harness": h["name"], "reproduced": False, "detail": "", "values": [], "path": None}
    if not tests:
        rec["detail"] = "kani produced no concrete playback test"
        rec["path"] = write_replay_file(prop, tier, h, r, None, rec, build)
        return rec
    # several failed checks give several tests; replay them in turn until one reproduces
    test = tests[0]
    for i, t in enumerate(tests[:4]):
        outcome = native_replay(plan, ws, tier, seed, h, t, logs_dir, tag=str(i))
        if outcome["reproduced"] or i == 0:
            rec.update(outcome)
            test = t
        if outcome["reproduced"]:
            break
    rec["values"] = dcv.parse_playback_values(test)
    rec["path"] = write_replay_file(prop, tier, h, r, test, rec, build)
    return rec


def _evidence(prop, tier, seed, meta, build, hs, results, inconclusive, t_start, n_viol, samples,
              validation=(), known=(), nontrivial=0, evaluations=0, partial=False, replays=()):
    functions = []
    for rel, names in meta.get("functions", []):
        functions += dcv.function_ranges(rel, names)
    hjs = []
    solver_s = 0.0
    for h, r in zip(hs, results):
        j = r.to_json()
        j["what"] = h.get("what", "")
        j["bounds"] = h.get("bounds", "")
        j["role"] = "known-finding witness %s" % h["finding"] if h.get("finding") else "must hold"
        hjs.append(j)
        solver_s += r.stats.get("solver_s", 0.0)
    if not samples:
        samples = [{"harness": h["name"], "what": h.get("what", "")} for h in hs[:3]] or [{"note": "no harness ran"}]
    steps = sum(r.stats.get("steps", 0) for r in results)
    vccs = sum(r.stats.get("vccs", 0) for r in results)
    validated = sum(1 for rec in replays if rec.get("reproduced")) + sum(int(v.get("tests_passed", 0)) for v in validation)
    cov = {
        "states": max(steps, 1),
        "transitions": max(vccs, 1),
        "traces_validated_against_impl": validated,
        "states_transitions_meaning": "bounded model checking has no explicit state graph: states = SSA steps of the unrolled, symbolically "
                                      "executed program summed over harnesses (CBMC 'size of program expression'), transitions = verification "
                                      "conditions generated from them; traces_validated_against_impl = solver counterexample traces replayed "
                                      "natively against the real code plus the repository's own unit tests replayed through the container models",
        "evaluations": max(evaluations, 1) if results else 1,
        "distinct_nontrivial": nontrivial,
        "rule": "evaluations = CBMC property checks (assertions, overflow/bounds/pointer checks, unwinding assertions) "
                "discharged by the SAT solver over all symbolic inputs within the bounds; distinct_nontrivial = harnesses "
                "that were decided, whose unwinding assertions passed and whose reachability covers were SATISFIED "
                "(a harness with an unsatisfied cover is vacuous and makes the run inconclusive)",
        "samples": samples,
        "exhaustive": False,
        "explanation": "bounded model checking of the compiled Rust source; every input/state/clock value inside the "
                       "bounds is covered by the solver verdict, nothing outside them is claimed",
        "engine": "Kani 0.68.0 / CBMC 6.11.0 / CaDiCaL",
        "functions_encoded": functions,
        "mounted_sources": (build or {}).get("mounted", []),
        "bounds": meta.get("bounds", {}),
        "models_and_stubs": meta.get("models", []),
        "outside_claim": meta.get("outside", []),
        "harnesses": hjs,
        "queries_discharged": evaluations,
        "solver_seconds": round(solver_s, 2),
        "encoder_validation": list(validation),
        "known_findings_matched": list(known),
        "replays": [{k: v for k, v in rec.items() if k != "values"} for rec in replays],
        "inconclusive": inconclusive,
        "partial_run": partial,
    }
    dcv.write_evidence(prop, tier, seed, cov, meta.get("assumptions", []), time.time() - t_start, n_viol)

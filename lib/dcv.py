"""dcv — driver library for solver-based (Kani/CBMC) checking of /repo (datacake).

Everything here is stdlib-only python3.  The deciding step is always CBMC's verdict on a
goto-program that Kani compiled from a scratch copy of /repo's *current* sources; this
module only regenerates that scratch copy, runs the solver under caps, classifies the
result and writes evidence.
"""
import atexit
import hashlib
import json
import os
import re
import resource
import shutil
import signal
import subprocess
import sys
import tempfile
import threading
import time
from concurrent.futures import ThreadPoolExecutor

VERIF = os.path.dirname(os.path.dirname(os.path.abspath(__file__)))
REPO = os.environ.get("VERIF_REPO", "/repo")
ENCODE = os.path.join(VERIF, "encode")
OUT = os.environ.get("VERIF_OUT_DIR", os.path.join(VERIF, "out"))
EVIDENCE = os.environ.get("VERIF_EVIDENCE_DIR", os.path.join(VERIF, "evidence"))
KNOWN_FINDINGS = os.path.join(VERIF, "known_findings.json")

ENV = dict(os.environ)
ENV.update({
    "CARGO_NET_OFFLINE": "true",
    "CARGO_TERM_COLOR": "never",
})
# never let an inherited toolchain override break `cargo kani` (it pins its own)
ENV.pop("RUSTUP_TOOLCHAIN", None)
ENV.pop("RUSTFLAGS", None)


def log(msg):
    sys.stderr.write("[dcv] %s\n" % msg)
    sys.stderr.flush()


def sha256_file(path):
    h = hashlib.sha256()
    with open(path, "rb") as f:
        h.update(f.read())
    return h.hexdigest()


# --------------------------------------------------------------------------- scratch

class Scratch:
    """Scratch root outside /repo and /verif; removed (with all build output) on exit."""

    def __init__(self, keep=False):
        base = os.environ.get("VERIF_SCRATCH_BASE", "/var/tmp")
        os.makedirs(base, exist_ok=True)
        self.root = tempfile.mkdtemp(prefix="dcv.%d." % os.getpid(), dir=base)
        self.keep = keep
        atexit.register(self.cleanup)
        for sig in (signal.SIGTERM, signal.SIGINT, signal.SIGHUP):
            signal.signal(sig, self._on_signal)

    def _on_signal(self, signum, frame):
        kill_children()
        self.cleanup()
        os._exit(2)

    def cleanup(self):
        if self.keep:
            log("keeping scratch %s" % self.root)
            return
        shutil.rmtree(self.root, ignore_errors=True)

    def path(self, *parts):
        return os.path.join(self.root, *parts)


_children = set()
_children_lock = threading.Lock()


def kill_children():
    with _children_lock:
        for p in list(_children):
            try:
                os.killpg(p.pid, signal.SIGKILL)
            except Exception:
                pass


# --------------------------------------------------------------------------- source mounting

class RewriteError(Exception):
    pass


def read_repo(rel):
    with open(os.path.join(REPO, rel), "r") as f:
        return f.read()


def mount(rel, dst, rewrites=(), append=(), prepend="", subst=None):
    """Copy /repo/<rel> to dst, apply the listed (pattern, replacement, min_hits) rewrites
    (regex, multiline), append the listed harness files.  Returns a record for evidence.
    A rewrite rule that matches fewer than min_hits times makes the run inconclusive."""
    src = os.path.join(REPO, rel)
    text = read_repo(rel)
    applied = []
    for rule in rewrites:
        pat, repl, min_hits = rule[0], rule[1], (rule[2] if len(rule) > 2 else 1)
        text, n = re.subn(pat, repl, text, flags=re.M)
        if n < min_hits:
            raise RewriteError("rewrite rule %r matched %d times (< %d) in %s" % (pat, n, min_hits, rel))
        applied.append({"pattern": pat, "replacement": repl, "hits": n})
    out = prepend + text
    appended = []
    for h in append:
        with open(h, "r") as f:
            out += "\n\n// ---- appended by /verif (%s) ----\n" % os.path.relpath(h, VERIF)
            body = f.read()
            for a, b in (subst or {}).items():
                body = body.replace(a, str(b))
            out += body
        appended.append(os.path.relpath(h, VERIF))
    os.makedirs(os.path.dirname(dst), exist_ok=True)
    with open(dst, "w") as f:
        f.write(out)
    return {"source": rel, "sha256": sha256_file(src), "lines": text.count("\n") + 1,
            "rewrites": applied, "appended": appended}


def write(dst, content):
    os.makedirs(os.path.dirname(dst), exist_ok=True)
    with open(dst, "w") as f:
        f.write(content)


def copy_tree(src, dst):
    shutil.copytree(src, dst, dirs_exist_ok=True)


def function_ranges(rel, names):
    """file:line ranges of `fn <name>` items in /repo/<rel> (brace matching; for evidence)."""
    text = read_repo(rel)
    lines = text.split("\n")
    out = []
    for name in names:
        found = False
        for i, l in enumerate(lines):
            if re.search(r"\bfn\s+%s\b" % re.escape(name), l) and not l.strip().startswith("//"):
                depth = 0
                started = False
                j = i
                while j < len(lines):
                    for ch in lines[j]:
                        if ch == "{":
                            depth += 1
                            started = True
                        elif ch == "}":
                            depth -= 1
                    if started and depth == 0:
                        break
                    if not started and lines[j].rstrip().endswith(";"):
                        break
                    j += 1
                out.append("%s:%d-%d %s" % (rel, i + 1, j + 1, name))
                found = True
        if not found:
            out.append("%s:? %s (NOT FOUND)" % (rel, name))
    return out


# --------------------------------------------------------------------------- running kani

CHECK_RE = re.compile(r"^Check (\d+): (.*\S)\s*$")
STATUS_RE = re.compile(r"^\s+- Status: (\S+)")
DESC_RE = re.compile(r'^\s+- Description: "(.*)"')
LOC_RE = re.compile(r"^\s+- Location: (.*)")


class HarnessResult:
    def __init__(self, name):
        self.name = name
        self.status = "error"       # success | failure | unwind | timeout | oom | error
        self.detail = ""
        self.checks_total = 0
        self.checks_failed = []     # [{id, description, location}]
        self.checks_undetermined = 0
        self.covers = {}            # description -> SATISFIED|UNSATISFIABLE|UNREACHABLE
        self.unwind_failures = 0
        self.stats = {}
        self.wall_s = 0.0
        self.log_path = None
        self.stubs = []

    def to_json(self):
        return {
            "name": self.name, "status": self.status, "detail": self.detail,
            "checks_total": self.checks_total,
            "checks_failed": self.checks_failed[:10],
            "checks_undetermined": self.checks_undetermined,
            "covers": self.covers, "unwind_failures": self.unwind_failures,
            "stubs_applied": self.stubs,
            "stats": self.stats, "wall_s": round(self.wall_s, 2),
        }


def parse_kani_output(text, res):
    cur = None
    for line in text.split("\n"):
        m = CHECK_RE.match(line)
        if m:
            cur = {"id": m.group(2), "status": None, "description": "", "location": ""}
            continue
        if cur is not None:
            m = STATUS_RE.match(line)
            if m:
                cur["status"] = m.group(1)
                continue
            m = DESC_RE.match(line)
            if m:
                cur["description"] = m.group(1)
                continue
            m = LOC_RE.match(line)
            if m:
                cur["location"] = m.group(1)
                _account(cur, res)
                cur = None
                continue
            if line.strip() == "":
                # checks without a location line
                if cur["status"] is not None:
                    _account(cur, res)
                cur = None
                continue
        m = re.match(r"^\s+- Stub: (.*)", line)
        if m:
            res.stubs.append(m.group(1).strip())
        m = re.match(r"^Runtime Symex: ([\d.e+-]+)s", line)
        if m:
            res.stats["symex_s"] = float(m.group(1))
        m = re.match(r"^size of program expression: (\d+) steps", line)
        if m:
            res.stats["steps"] = int(m.group(1))
        m = re.match(r"^Generated (\d+) VCC\(s\), (\d+) remaining", line)
        if m:
            res.stats["vccs"] = int(m.group(1))
            res.stats["vccs_remaining"] = int(m.group(2))
        m = re.match(r"^(\d+) variables, (\d+) clauses", line)
        if m:
            res.stats["variables"] = int(m.group(1))
            res.stats["clauses"] = int(m.group(2))
        m = re.match(r"^Runtime Solver: ([\d.e+-]+)s", line)
        if m:
            res.stats["solver_s"] = res.stats.get("solver_s", 0.0) + float(m.group(1))
        m = re.match(r"^Runtime decision procedure: ([\d.e+-]+)s", line)
        if m:
            res.stats["decision_s"] = float(m.group(1))
        m = re.match(r"^Verification Time: ([\d.e+-]+)s", line)
        if m:
            res.stats["verification_s"] = float(m.group(1))
    verdict = None
    if "VERIFICATION:- SUCCESSFUL" in text:
        verdict = "success"
    elif "VERIFICATION:- FAILED" in text:
        verdict = "failure"
    return verdict


def _account(chk, res):
    st = chk["status"]
    desc = chk["description"]
    if chk["id"].split(".")[-2:-1] == ["cover"] or ".cover." in chk["id"]:
        res.covers["%s @ %s [%s]" % (desc, chk["location"].split(" in function ")[0], chk["id"])] = st
        return
    res.checks_total += 1
    if st == "FAILURE":
        if "unwinding assertion" in desc:
            res.unwind_failures += 1
        res.checks_failed.append({"id": chk["id"], "description": desc, "location": chk["location"]})
    elif st == "UNDETERMINED":
        res.checks_undetermined += 1
    elif st == "ERROR":
        res.checks_undetermined += 1


def _limits(mem_gb):
    def fn():
        os.setsid()
        if mem_gb:
            b = int(mem_gb * (1 << 30))
            resource.setrlimit(resource.RLIMIT_AS, (b, b))
    return fn


def run_cmd(cmd, cwd, timeout, mem_gb=None, log_path=None, env=None):
    """Run cmd with its own process group, memory cap and timeout.  Returns (rc, text, timed_out)."""
    t0 = time.time()
    p = subprocess.Popen(cmd, cwd=cwd, env=env or ENV, stdout=subprocess.PIPE, stderr=subprocess.STDOUT,
                         preexec_fn=_limits(mem_gb), text=True, errors="replace")
    with _children_lock:
        _children.add(p)
    timed_out = False
    try:
        out, _ = p.communicate(timeout=timeout)
    except subprocess.TimeoutExpired:
        timed_out = True
        try:
            os.killpg(p.pid, signal.SIGKILL)
        except Exception:
            pass
        out, _ = p.communicate()
    finally:
        with _children_lock:
            _children.discard(p)
    if log_path:
        os.makedirs(os.path.dirname(log_path), exist_ok=True)
        with open(log_path, "w") as f:
            f.write("$ %s\n(cwd %s, %.1fs, rc=%s, timed_out=%s)\n" % (" ".join(cmd), cwd, time.time() - t0, p.returncode, timed_out))
            f.write(out)
    return p.returncode, out, timed_out


KANI_BASE = ["cargo", "kani", "-Z", "stubbing"]


def kani_codegen(crate_dir, target_dir, features=(), extra=(), timeout=900, log_path=None):
    cmd = KANI_BASE + ["--only-codegen", "--target-dir", target_dir] + list(extra)
    if features:
        cmd += ["--features", ",".join(features)]
    rc, out, to = run_cmd(cmd, crate_dir, timeout, log_path=log_path)
    return rc == 0 and not to, out


def run_harness(crate_dir, base_target, h, scratch_root, logs_dir, features=()):
    """h: dict(name, timeout_s, mem_gb, extra_args).  Uses its own copy of the target dir."""
    res = HarnessResult(h["name"])
    tdir = os.path.join(scratch_root, "t_" + re.sub(r"\W", "_", h["name"]))
    t0 = time.time()
    try:
        if base_target and os.path.isdir(base_target):
            shutil.copytree(base_target, tdir, symlinks=True)
        cmd = KANI_BASE + ["--harness", h["name"], "--target-dir", tdir]
        if features:
            cmd += ["--features", ",".join(features)]
        cmd += list(h.get("extra_args", ()))
        res.log_path = os.path.join(logs_dir, h["name"] + ".log")
        rc, out, timed_out = run_cmd(cmd, crate_dir, h.get("timeout_s", 600), mem_gb=h.get("mem_gb", 16),
                                     log_path=res.log_path)
        verdict = parse_kani_output(out, res)
        res.wall_s = time.time() - t0
        if timed_out:
            res.status = "timeout"
            res.detail = "killed after %ds" % h.get("timeout_s", 600)
        elif verdict == "success" and rc == 0:
            if res.checks_undetermined:
                res.status = "error"
                res.detail = "%d undetermined checks" % res.checks_undetermined
            else:
                res.status = "success"
        elif verdict == "failure":
            if re.search(r"std::bad_alloc|out of memory|Out of memory|MemoryError", out) or \
                    (res.checks_total and not res.checks_failed and res.checks_undetermined):
                res.status = "oom"
                res.detail = "solver ran out of memory / undetermined"
            elif res.checks_failed and all("unwinding assertion" in c["description"] for c in res.checks_failed):
                res.status = "unwind"
                res.detail = "unwinding assertion failed: bound too small"
            elif res.checks_failed:
                res.status = "failure"
            else:
                res.status = "error"
                res.detail = "FAILED without a failed check (see log)"
        else:
            if re.search(r"std::bad_alloc|memory allocation of|Cannot allocate memory", out):
                res.status = "oom"
            else:
                res.status = "error"
            tail = [l for l in out.strip().split("\n") if l.strip()][-6:]
            res.detail = "rc=%s; %s" % (rc, " | ".join(tail))[:800]
    except Exception as e:  # noqa
        res.status = "error"
        res.detail = "driver exception: %r" % (e,)
        res.wall_s = time.time() - t0
    finally:
        shutil.rmtree(tdir, ignore_errors=True)
    return res


def concrete_playback(crate_dir, base_target, hname, scratch_root, logs_dir, features=(), timeout=1800, mem_gb=24):
    """Ask Kani for the concrete values of a failing harness.  Returns the generated unit
    test text (or None)."""
    tdir = os.path.join(scratch_root, "tp_" + re.sub(r"\W", "_", hname))
    try:
        if base_target and os.path.isdir(base_target):
            shutil.copytree(base_target, tdir, symlinks=True)
        cmd = KANI_BASE + ["-Z", "concrete-playback", "--concrete-playback=print",
                           "--harness", hname, "--target-dir", tdir]
        if features:
            cmd += ["--features", ",".join(features)]
        rc, out, to = run_cmd(cmd, crate_dir, timeout, mem_gb=mem_gb,
                              log_path=os.path.join(logs_dir, hname + ".playback.log"))
        blocks = re.findall(r"```\n(/// Test generated for harness.*?)```", out, flags=re.S)
        # one test per failed check *and* per satisfied cover: keep the failed checks only
        fails = [b for b in blocks if not re.search(r"/// Check for `cover`", b)]
        return fails if fails else None
    finally:
        shutil.rmtree(tdir, ignore_errors=True)


def parse_playback_values(test_text):
    """Extract the byte vectors of a generated playback test as little-endian unsigned ints."""
    vals = []
    body = test_text[test_text.find("concrete_vals"):]
    for m in re.finditer(r"^\s*vec!\[([\d,\s]*)\],?\s*$", body, flags=re.M):
        raw = [int(x) for x in m.group(1).replace(" ", "").split(",") if x]
        n = 0
        for i, b in enumerate(raw):
            n |= b << (8 * i)
        vals.append(n)
    return vals


# --------------------------------------------------------------------------- known findings

def load_known_findings():
    try:
        with open(KNOWN_FINDINGS) as f:
            d = json.load(f)
    except FileNotFoundError:
        return {"findings": [], "fixed": []}
    return d


# --------------------------------------------------------------------------- evidence

def write_evidence(prop, tier, seed, coverage, assumptions, wall_s, violations):
    os.makedirs(EVIDENCE, exist_ok=True)
    ev = {
        "property_id": prop,
        "tier": tier,
        "seed": seed,
        "level": "model_checking",
        "coverage": coverage,
        "assumptions": assumptions,
        "wall_s": round(wall_s, 2),
        "violations": violations,
    }
    path = os.path.join(EVIDENCE, prop + ".json")
    tmp = path + ".tmp"
    with open(tmp, "w") as f:
        json.dump(ev, f, indent=1, sort_keys=False)
        f.write("\n")
    os.replace(tmp, path)
    return path


class MemBudget:
    """Admit jobs while the sum of their memory caps stays under the budget."""

    def __init__(self, total_gb=56.0, max_jobs=14):
        self.total = total_gb
        self.free = total_gb
        self.jobs = 0
        self.max_jobs = max_jobs
        self.cv = threading.Condition()

    def acquire(self, gb):
        gb = min(gb, self.total)
        with self.cv:
            while self.free < gb or self.jobs >= self.max_jobs:
                self.cv.wait()
            self.free -= gb
            self.jobs += 1
        return gb

    def release(self, gb):
        with self.cv:
            self.free += gb
            self.jobs -= 1
            self.cv.notify_all()


def run_parallel(jobs, max_workers):
    """jobs: list of zero-arg callables; returns results in order."""
    with ThreadPoolExecutor(max_workers=max_workers) as ex:
        futs = [ex.submit(j) for j in jobs]
        return [f.result() for f in futs]

"""Native replay of solver counterexamples against the real code.

The concrete values CBMC assigned to the harness's `kani::any()` calls are turned (by Kani's
concrete playback) into an ordinary #[test]; that test is injected into a *replay build* of
the same scratch workspace — std containers instead of the solver-friendly models, the real
functions instead of `#[kani::stub]`s except for the environment (wall clock), which reads
the same concrete values — and run natively.  Only a test that fails there is reported.
"""
import json
import os
import re
import shutil
import time

import dcv

PLAYBACK_MARK = "// @@PLAYBACK@@"


def _inject(crate_dir, hname, test_text):
    """Put test_text at the first PLAYBACK marker following `fn <hname>(` in the crate's sources
    (macro-generated harnesses: the first marker after the first mention of the name)."""
    short = hname.split("::")[-1]
    for pat in (r"\bfn\s+%s\s*\(" % re.escape(short), r"\b%s\b" % re.escape(short)):
        for root, _, files in os.walk(os.path.join(crate_dir, "src")):
            for fn in sorted(files):
                if not fn.endswith(".rs"):
                    continue
                p = os.path.join(root, fn)
                with open(p) as f:
                    s = f.read()
                m = re.search(pat, s)
                if not m:
                    continue
                k = s.find(PLAYBACK_MARK, m.end())
                if k < 0:
                    continue
                s = s[:k] + test_text + "\n" + s[k:]
                with open(p, "w") as f:
                    f.write(s)
                return p
    return None


def native_replay(plan, ws, tier, seed, h, test_text, logs_dir, profiles=("dev",), tag="0"):
    """Returns {reproduced: bool, detail: str, profiles: {...}}."""
    out = {"reproduced": False, "detail": "", "profiles": {}}
    sub = dcv.Scratch.__new__(dcv.Scratch)
    sub.root = ws.path("replay_" + re.sub(r"\W", "_", h["name"]) + "_" + tag)
    sub.keep = True  # parent scratch removes it
    os.makedirs(sub.root, exist_ok=True)
    try:
        build = plan.build(sub, tier, seed, "replay")
    except Exception as e:  # noqa
        out["detail"] = "replay build could not be generated: %r" % (e,)
        return out
    c = build["crates"][h["crate"]]
    where = _inject(c["dir"], h["name"], test_text)
    if not where:
        out["detail"] = "could not inject playback test (marker missing)"
        return out
    m = re.search(r"fn (kani_concrete_playback_\w+)\s*\(", test_text)
    tname = m.group(1)
    env = dict(dcv.ENV)
    env["CARGO_TARGET_DIR"] = os.path.join(sub.root, "target_pb")
    env["RUST_BACKTRACE"] = "0"
    any_repro = False
    for prof in profiles:
        cmd = ["cargo", "kani", "playback", "-Z", "concrete-playback", "--lib"]
        feats = c.get("features", ())
        if feats:
            cmd += ["--features", ",".join(feats)]
        if prof == "release":
            cmd += ["--release"]
        cmd += ["--", tname, "--exact-is-not-used", "--nocapture"]
        cmd = [x for x in cmd if x != "--exact-is-not-used"]
        rc, text, to = dcv.run_cmd(cmd, c["dir"], 900, log_path=os.path.join(logs_dir, h["name"] + ".native_%s_%s.log" % (prof, tag)), env=env)
        ran = re.search(r"test result: (\w+)\. (\d+) passed; (\d+) failed", text)
        if to or not ran:
            out["profiles"][prof] = "did not run (rc=%s)" % rc
            tail = [l for l in text.strip().split("\n") if l.strip()][-8:]
            out["detail"] = "native replay did not run: " + " | ".join(tail)[:600]
            continue
        failed = int(ran.group(3))
        passed = int(ran.group(2))
        if failed >= 1:
            pm = re.search(r"panicked at ([^\n]*)\n([^\n]*)", text)
            out["profiles"][prof] = "reproduced: " + (pm.group(0).replace("\n", " ")[:300] if pm else "test failed")
            any_repro = True
        elif passed >= 1:
            out["profiles"][prof] = "not reproduced (test passed)"
        else:
            out["profiles"][prof] = "test not found"
    out["reproduced"] = any_repro
    if not any_repro and not out["detail"]:
        out["detail"] = "test passed natively: %s" % out["profiles"]
    return out


def write_replay_file(prop, tier, h, r, test_text, rec, build):
    d = os.path.join(dcv.OUT, "replays", prop)
    os.makedirs(d, exist_ok=True)
    path = os.path.join(d, "%s.%s.json" % (h["name"], tier))
    doc = {
        "property": prop,
        "tier": tier,
        "harness": h["name"],
        "crate": h["crate"],
        "what": h.get("what", ""),
        "failed_checks": r.checks_failed[:10] if r is not None else [],
        "concrete_values_le": rec.get("values", []),
        "playback_test": test_text,
        "native_replay": {k: rec.get(k) for k in ("reproduced", "detail", "profiles")},
        "mounted_sources": (build or {}).get("mounted", []),
        "written_at": time.strftime("%Y-%m-%dT%H:%M:%S"),
    }
    with open(path, "w") as f:
        json.dump(doc, f, indent=1)
        f.write("\n")
    return path


def replay_file(plan, path, keep=False):
    """./check Cxx --replay <file>: re-run the recorded counterexample natively on /repo as it is now."""
    with open(path) as f:
        doc = json.load(f)
    if not doc.get("playback_test"):
        print("replay file has no playback test")
        return 2
    ws = dcv.Scratch(keep=keep)
    logs_dir = os.path.join(dcv.OUT, "logs", doc["property"], "replay")
    os.makedirs(logs_dir, exist_ok=True)
    h = {"name": doc["harness"], "crate": doc["crate"]}
    out = native_replay(plan, ws, doc.get("tier", "quick"), 0, h, doc["playback_test"], logs_dir, profiles=("dev",))
    print(json.dumps(out, indent=1))
    if out["reproduced"]:
        print("VIOLATION property=%s replay=%s" % (doc["property"], path))
        return 1
    print("not reproduced on the current tree")
    return 0

// C03 — merging replica states is commutative, associative and idempotent.
#[cfg(kani)]
mod verif_c03 {
    use super::verif_support::*;
    use super::*;

    fn in_window(t: HLCTimestamp, base: u64) -> bool {
        t.seconds() >= base && t.seconds() < base + WINDOW
    }

    fn all_in_window<const N: usize>(set: &OrSWotSet<N>, base: u64) -> bool {
        let mut k = 0;
        while k < KEYS {
            match view_of(set, k as Key) {
                View::Live(t) | View::Dead(t) => {
                    if !in_window(t, base) {
                        return false;
                    }
                },
                View::Nothing => {},
            }
            k += 1;
        }
        let mut n = 0;
        while n < NODES {
            let mut s = 0;
            while s < N {
                if let Some(t) = set.versions.nodes_max_stamps[s].get(&(n as u8)).copied() {
                    if !in_window(t, base) {
                        return false;
                    }
                }
                s += 1;
            }
            n += 1;
        }
        true
    }

    fn stamp_kind(v: View) -> (Option<HLCTimestamp>, bool) {
        match v {
            View::Live(t) => (Some(t), false),
            View::Dead(t) => (Some(t), true),
            View::Nothing => (None, false),
        }
    }

    /// stamps are pairwise distinct unless they denote the same operation (same key, same kind)
    fn distinct_ops<const N: usize>(a: &OrSWotSet<N>, b: &OrSWotSet<N>) -> bool {
        let mut i = 0;
        while i < KEYS {
            let (ta, da) = stamp_kind(view_of(a, i as Key));
            let (tbs, _) = stamp_kind(view_of(b, i as Key));
            let mut j = 0;
            while j < KEYS {
                let (ta2, _) = stamp_kind(view_of(a, j as Key));
                let (tb, db) = stamp_kind(view_of(b, j as Key));
                if ta.is_some() && ta == tb && !(i == j && da == db) {
                    return false;
                }
                if i != j && ta.is_some() && ta == ta2 {
                    return false;
                }
                if i != j && tbs.is_some() && tbs == tb {
                    return false;
                }
                j += 1;
            }
            i += 1;
        }
        true
    }

    /// least upper bound of two views in last-writer-wins order
    fn join(x: View, y: View) -> View {
        match y {
            View::Nothing => x,
            View::Live(t) => lww(x, false, t),
            View::Dead(t) => lww(x, true, t),
        }
    }

    fn same_views<const N: usize>(x: &OrSWotSet<N>, y: &OrSWotSet<N>) -> bool {
        let mut k = 0;
        while k < KEYS {
            if view_of(x, k as Key) != view_of(y, k as Key) {
                return false;
            }
            k += 1;
        }
        true
    }

    fn same_versions<const N: usize>(x: &OrSWotSet<N>, y: &OrSWotSet<N>) -> bool {
        let mut n = 0;
        while n < NODES {
            let node = n as u8;
            let mut s = 0;
            while s < N {
                if x.versions.nodes_max_stamps[s].get(&node).copied() != y.versions.nodes_max_stamps[s].get(&node).copied() {
                    return false;
                }
                s += 1;
            }
            if x.versions.safe_last_stamps.get(&node).copied() != y.versions.safe_last_stamps.get(&node).copied() {
                return false;
            }
            n += 1;
        }
        true
    }

    fn two_states<const N: usize>() -> (OrSWotSet<N>, OrSWotSet<N>, u64) {
        let base: u32 = kani::any();
        kani::assume(base < u32::MAX - 3600);
        let a = any_state::<N>();
        let b = any_state::<N>();
        kani::assume(all_in_window(&a, base as u64) && all_in_window(&b, base as u64));
        kani::assume(distinct_ops(&a, &b));
        (a, b, base as u64)
    }

    // ---- the merge of two arbitrary in-window replicas is, key by key, the last-writer-wins join of
    //      what they show, and source by source / origin by origin the newer of the stamps seen.
    //      join is a semilattice operation (max), so any order, grouping and repetition of merges
    //      yields the same views; invariant/window/distinctness are preserved, so this step composes.
    fn merge_is_join<const N: usize>() {
        let (mut a, b, base) = two_states::<N>();
        let mut va = [View::Nothing; KEYS];
        let mut vb = [View::Nothing; KEYS];
        let mut k = 0;
        while k < KEYS {
            va[k] = view_of(&a, k as Key);
            vb[k] = view_of(&b, k as Key);
            k += 1;
        }
        let a0 = a.clone();
        a.merge(b.clone());
        let mut k = 0;
        let mut changed = false;
        while k < KEYS {
            let got = view_of(&a, k as Key);
            assert!(got == join(va[k], vb[k]), "merged view == last-writer-wins join of the two views");
            changed |= got != va[k];
            k += 1;
        }
        let mut n = 0;
        while n < NODES {
            let node = n as u8;
            let mut s = 0;
            while s < N {
                let x = a0.versions.nodes_max_stamps[s].get(&node).copied();
                let y = b.versions.nodes_max_stamps[s].get(&node).copied();
                let want = match (x, y) {
                    (Some(p), Some(q)) => Some(if p >= q { p } else { q }),
                    (Some(p), None) => Some(p),
                    (None, q) => q,
                };
                assert!(a.versions.nodes_max_stamps[s].get(&node).copied() == want, "newest-seen stamps are merged as per-(source, origin) maxima");
                s += 1;
            }
            n += 1;
        }
        assert!(inv(&a), "invariant preserved by merge");
        assert!(all_in_window(&a, base) && distinct_ops(&a, &b), "window condition preserved");
        kani::cover!(changed, "merge changed a view");
        kani::cover!(!changed, "merge changed nothing visible");
        forget(a);
        forget(b);
        forget(a0);
    }

    #[kani::proof]
    #[kani::unwind(@@UNWIND@@)]
    fn c03_merge_is_join_n2() {
        merge_is_join::<2>();
    }

    #[kani::proof]
    #[kani::unwind(@@UNWIND@@)]
    fn c03_merge_is_join_n1() {
        merge_is_join::<1>();
    }

    // ---- the algebraic laws, directly
    #[kani::proof]
    #[kani::unwind(@@UNWIND@@)]
    fn c03_self_merge_n2() {
        let mut a = any_state::<2>();
        let base: u32 = kani::any();
        kani::assume(base < u32::MAX - 3600);
        kani::assume(all_in_window(&a, base as u64) && distinct_ops(&a, &a));
        let a0 = a.clone();
        a.merge(a0.clone());
        assert!(same_views(&a, &a0) && same_versions(&a, &a0), "A merged with itself is A");
        kani::cover!(a0.get(&0).is_some(), "non-empty replica");
        forget(a);
        forget(a0);
    }

    #[kani::proof]
    #[kani::unwind(@@UNWIND@@)]
    fn c03_remerge_n2() {
        let (mut a, b, _) = two_states::<2>();
        let a0 = a.clone();
        a.merge(b.clone());
        let ab = a.clone();
        a.merge(b.clone());
        assert!(same_views(&a, &ab) && same_versions(&a, &ab), "re-merging a state already merged changes nothing");
        kani::cover!(!same_views(&ab, &a0), "B contributed something");
        forget(a);
        forget(b);
        forget(a0);
        forget(ab);
    }

    #[kani::proof]
    #[kani::unwind(@@UNWIND@@)]
    fn c03_commutative_n2() {
        let (a, b, _) = two_states::<2>();
        let mut ab = a.clone();
        ab.merge(b.clone());
        let mut ba = b.clone();
        ba.merge(a.clone());
        assert!(same_views(&ab, &ba), "A merged with B shows the same live ids, tombstones and stamps as B merged with A");
        assert!(same_versions(&ab, &ba), "...and has seen the same");
        kani::cover!(!same_views(&a, &b), "the two replicas differed");
        forget(a);
        forget(b);
        forget(ab);
        forget(ba);
    }

    #[kani::proof]
    #[kani::unwind(@@UNWIND@@)]
    fn c03_mutual_merge_n2() {
        let (a, b, _) = two_states::<2>();
        let mut a2 = a.clone();
        a2.merge(b.clone());
        let mut b2 = b.clone();
        b2.merge(a2.clone());
        let mut k = 0;
        while k < KEYS {
            let key = k as Key;
            assert!(a2.get(&key).copied() == b2.get(&key).copied(), "replicas that merged each other are indistinguishable by lookups");
            k += 1;
        }
        assert!(same_views(&a2, &b2));
        kani::cover!(!same_views(&a, &b), "the two replicas differed");
        forget(a);
        forget(b);
        forget(a2);
        forget(b2);
    }

    #[kani::proof]
    #[kani::unwind(@@UNWIND@@)]
    fn c03_associative_n2() {
        let (a, b, base) = two_states::<2>();
        let c = any_state::<2>();
        kani::assume(all_in_window(&c, base) && distinct_ops(&a, &c) && distinct_ops(&b, &c));
        let mut left = a.clone();
        left.merge(b.clone());
        left.merge(c.clone());
        let mut bc = b.clone();
        bc.merge(c.clone());
        let mut right = a.clone();
        right.merge(bc);
        assert!(same_views(&left, &right) && same_versions(&left, &right), "(A+B)+C == A+(B+C)");
        kani::cover!(!same_views(&a, &left), "merging changed A");
        forget(a);
        forget(b);
        forget(c);
        forget(left);
        forget(right);
    }
    // ---- the property's FIRST condition: replicas that each applied a gap-free prefix of every origin's operations,
    //      stamps arbitrarily far apart (so purge cut-offs come into play).  A pool of three operations with distinct
    //      stamps; replica X applies, per origin, every operation of that origin up to an arbitrary bound, in stamp
    //      order; then the replicas merge each other in both orders.  Single source, so cut-offs are live.
    #[derive(Clone, Copy)]
    struct PoolOp {
        delete: bool,
        key: Key,
        ts: HLCTimestamp,
    }

    fn any_pool_op() -> PoolOp {
        PoolOp { delete: kani::any(), key: any_key(), ts: any_ts() }
    }

    fn apply_prefix(set: &mut OrSWotSet<1>, ops: &[PoolOp; 3], bound: &[u64; NODES]) -> u8 {
        // ops are sorted by stamp by the caller
        let mut applied = 0u8;
        let mut i = 0;
        while i < 3 {
            let op = ops[i];
            let mut n = 0;
            let mut within = false;
            while n < NODES {
                if op.ts.node() as usize == n && op.ts.as_u64() <= bound[n] {
                    within = true;
                }
                n += 1;
            }
            if within {
                if op.delete {
                    set.delete(op.key, op.ts);
                } else {
                    set.insert(op.key, op.ts);
                }
                applied += 1;
            }
            i += 1;
        }
        applied
    }

    fn same_gets(x: &OrSWotSet<1>, y: &OrSWotSet<1>) -> bool {
        let mut k = 0;
        while k < KEYS {
            if x.get(&(k as Key)).copied() != y.get(&(k as Key)).copied() {
                return false;
            }
            k += 1;
        }
        true
    }

    #[kani::proof]
    #[kani::unwind(@@UNWIND@@)]
    fn c03_prefix_merge_p3_n1() {
        let mut ops = [any_pool_op(), any_pool_op(), any_pool_op()];
        kani::assume(ops[0].ts != ops[1].ts && ops[0].ts != ops[2].ts && ops[1].ts != ops[2].ts);
        // sort the pool by stamp (3-element network)
        if ops[0].ts > ops[1].ts {
            ops.swap(0, 1);
        }
        if ops[1].ts > ops[2].ts {
            ops.swap(1, 2);
        }
        if ops[0].ts > ops[1].ts {
            ops.swap(0, 1);
        }
        let bound_a: [u64; NODES] = kani::any();
        let bound_b: [u64; NODES] = kani::any();
        let mut a = OrSWotSet::<1>::default();
        let mut b = OrSWotSet::<1>::default();
        let na = apply_prefix(&mut a, &ops, &bound_a);
        let nb = apply_prefix(&mut b, &ops, &bound_b);
        let mut ab = a.clone();
        ab.merge(b.clone());
        let mut ba = b.clone();
        ba.merge(a.clone());
        assert!(same_gets(&ab, &ba), "gap-free prefixes: merging in either order yields the same live ids and timestamps");
        let mut ab2 = ab.clone();
        ab2.merge(b.clone());
        assert!(same_gets(&ab2, &ab), "re-merging a state already merged changes nothing");
        kani::cover!(na == 1 && nb == 3, "a lagging replica merges a complete one");
        kani::cover!(na >= 1 && nb >= 1 && ops[2].ts.seconds() > ops[0].ts.seconds() + 2 * WINDOW, "operations more than two forgiveness periods apart");
        forget(a);
        forget(b);
        forget(ab);
        forget(ba);
        forget(ab2);
    }
    // @@PLAYBACK@@
}

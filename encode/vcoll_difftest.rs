
// ---- appended by /verif: native differential test of the container models against std ----
#[cfg(test)]
mod difftest {
    use super::*;

    struct Lcg(u64);
    impl Lcg {
        fn next(&mut self) -> u64 {
            self.0 = self.0.wrapping_mul(6364136223846793005).wrapping_add(1442695040888963407);
            self.0 >> 33
        }
    }

    fn seed() -> u64 {
        std::env::var("VERIF_SEED").ok().and_then(|s| s.parse().ok()).unwrap_or(0) + 0x9E37
    }

    #[test]
    fn map_matches_btreemap() {
        let mut rng = Lcg(seed());
        let mut calls = 0u64;
        for _ in 0..2_000 {
            let mut m: Map<u64, u32> = Map::new();
            let mut r: std::collections::BTreeMap<u64, u32> = std::collections::BTreeMap::new();
            for _ in 0..12 {
                let k = rng.next() % (KEYS as u64);
                let v = rng.next() as u32;
                match rng.next() % 7 {
                    0 => assert_eq!(m.insert(k, v), r.insert(k, v)),
                    1 => assert_eq!(m.remove(&k), r.remove(&k)),
                    2 => assert_eq!(m.get(&k), r.get(&k)),
                    3 => {
                        let a = *m.entry(k).and_modify(|x| *x = x.wrapping_add(1)).or_insert_with(|| v);
                        let b = *r.entry(k).and_modify(|x| *x = x.wrapping_add(1)).or_insert_with(|| v);
                        assert_eq!(a, b);
                    },
                    4 => {
                        use std::collections::btree_map::Entry as SE;
                        let a = match m.entry(k) {
                            Entry::Occupied(mut e) => {
                                let old = *e.get();
                                e.insert(v);
                                Some(old)
                            },
                            Entry::Vacant(e) => {
                                e.insert(v);
                                None
                            },
                        };
                        let b = match r.entry(k) {
                            SE::Occupied(mut e) => {
                                let old = *e.get();
                                e.insert(v);
                                Some(old)
                            },
                            SE::Vacant(e) => {
                                e.insert(v);
                                None
                            },
                        };
                        assert_eq!(a, b);
                    },
                    5 => {
                        let t = core::mem::take(&mut m);
                        let u = core::mem::take(&mut r);
                        let a: std::vec::Vec<(u64, u32)> = t.into_iter().collect();
                        let b: std::vec::Vec<(u64, u32)> = u.into_iter().collect();
                        assert_eq!(a, b);
                    },
                    _ => assert_eq!(m.contains_key(&k), r.contains_key(&k)),
                }
                calls += 1;
                assert_eq!(m.len(), r.len());
                assert_eq!(m.is_empty(), r.is_empty());
                let a: std::vec::Vec<(u64, u32)> = m.iter().map(|(k, v)| (*k, *v)).collect();
                let b: std::vec::Vec<(u64, u32)> = r.iter().map(|(k, v)| (*k, *v)).collect();
                assert_eq!(a, b, "iteration order and content");
            }
        }
        assert!(calls >= 20_000);
    }

    #[test]
    fn set_matches_std() {
        let mut rng = Lcg(seed() ^ 0x55);
        for _ in 0..2_000 {
            let mut m: HashSet<u8> = HashSet::new();
            let mut r: std::collections::BTreeSet<u8> = std::collections::BTreeSet::new();
            for _ in 0..8 {
                let k = (rng.next() % (NODES as u64)) as u8;
                assert_eq!(m.insert(k), r.insert(k));
                assert_eq!(m.contains(&k), r.contains(&k));
                assert_eq!(m.len(), r.len());
            }
            let a: std::vec::Vec<u8> = m.into_iter().collect();
            let b: std::vec::Vec<u8> = r.into_iter().collect();
            assert_eq!(a, b);
        }
    }

    #[test]
    fn vec_matches_std() {
        let mut rng = Lcg(seed() ^ 0xAA);
        for _ in 0..3_000 {
            let mut m: Vec<(u64, u64, bool)> = Vec::new();
            let mut r: std::vec::Vec<(u64, u64, bool)> = std::vec::Vec::new();
            let n = rng.next() % (VCAP as u64 + 1);
            for _ in 0..n {
                // few distinct sort keys so that stability matters
                let x = (rng.next() % 5, rng.next() % 3, rng.next() % 2 == 0);
                m.push(x);
                r.push(x);
            }
            assert_eq!(m.len(), r.len());
            m.sort_by_key(|v| v.1);
            r.sort_by_key(|v| v.1);
            assert!(m == r, "stable sort result");
            let a: std::vec::Vec<_> = m.iter().copied().collect();
            assert_eq!(a, r);
            for (i, x) in r.iter().enumerate() {
                assert_eq!(m[i], *x);
                assert!(m.contains(x));
            }
            let b: std::vec::Vec<_> = m.into_iter().collect();
            assert_eq!(b, r);
            let c: Vec<(u64, u64, bool)> = r.iter().copied().collect();
            let mut d: Vec<(u64, u64, bool)> = Vec::new();
            d.extend(r.iter().copied());
            assert!(c == d && c == r);
        }
    }
}

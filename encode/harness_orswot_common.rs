// Shared harness support for the ORSWOT properties (C03, C04, C05, C08).
// Appended to orswot.rs (child module of `orswot`, so private fields are reachable).  It only
// uses the container API subset common to std::collections and the vcoll models, so the very
// same text compiles against the unrewritten file for native replay.
#[cfg(kani)]
#[allow(dead_code)]
pub(crate) mod verif_support {
    use super::*;
    pub use crate::vcoll_cfg::{KEYS, NODES};

    pub const WINDOW: u64 = 3_600; // FORGIVENESS_PERIOD in every non-test build

    /// An arbitrary *valid* stamp whose origin lies in the node domain.
    pub fn any_ts() -> HLCTimestamp {
        let v: u64 = kani::any();
        let t = HLCTimestamp::from_u64(v);
        kani::assume(t.fractional() < 250);
        kani::assume((t.node() as usize) < NODES);
        t
    }

    pub fn any_ts_of(node: u8) -> HLCTimestamp {
        let v: u64 = kani::any();
        let t = HLCTimestamp::from_u64((v & !0xFF) | node as u64);
        kani::assume(t.fractional() < 250);
        t
    }

    pub fn any_key() -> Key {
        let k: u8 = kani::any();
        kani::assume((k as usize) < KEYS);
        k as Key
    }

    pub fn any_source<const N: usize>() -> usize {
        let s: u8 = kani::any();
        kani::assume((s as usize) < N);
        s as usize
    }

    /// Division-free model of `compute_safe_last_stamp`: the per-origin purge cut-off is the
    /// smallest "newest stamp seen" over all sources (a source that has seen nothing counts as
    /// time zero), moved back by the forgiveness window, keeping that stamp's counter and node.
    pub fn spec_cutoff<const N: usize>(max: &[Option<HLCTimestamp>; N], node: u8) -> Option<HLCTimestamp> {
        let mut any = false;
        let mut min: Option<HLCTimestamp> = None;
        let mut s = 0;
        while s < N {
            let v = match max[s] {
                Some(t) => {
                    any = true;
                    t
                },
                None => HLCTimestamp::from_u64(node as u64),
            };
            min = match min {
                Some(m) if m <= v => Some(m),
                _ => Some(v),
            };
            s += 1;
        }
        if !any {
            return None;
        }
        let m = match min {
            Some(m) => m,
            None => return None,
        };
        let packed = if m.seconds() >= WINDOW {
            ((m.seconds() - WINDOW) << 32) | ((m.fractional() as u64) << 24) | ((m.counter() as u64) << 8) | m.node() as u64
        } else {
            // the window reaches back past time zero: nothing is cut off yet
            node as u64
        };
        Some(HLCTimestamp::from_u64(packed))
    }

    pub fn max_of<const N: usize>(set: &OrSWotSet<N>, node: u8) -> [Option<HLCTimestamp>; N] {
        let mut out = [None; N];
        let mut s = 0;
        while s < N {
            out[s] = set.versions.nodes_max_stamps[s].get(&node).copied();
            s += 1;
        }
        out
    }

    /// Representation invariant of OrSWotSet (DESIGN.md §2.4):
    ///  i1 no key is both live and tombstoned;
    ///  i2 the stored cut-off of every origin equals spec_cutoff of the stored newest-seen stamps,
    ///     and is present iff some source has seen that origin;
    ///  i3 every newest-seen stamp is filed under its own origin;
    ///  i4 all stamps are valid (fractional < 250).
    pub fn inv<const N: usize>(set: &OrSWotSet<N>) -> bool {
        let mut k = 0;
        while k < KEYS {
            let key = k as Key;
            let e = set.entries.get(&key).copied();
            let d = set.dead.get(&key).copied();
            if e.is_some() && d.is_some() {
                return false;
            }
            if let Some(t) = e {
                if t.fractional() >= 250 || (t.node() as usize) >= NODES {
                    return false;
                }
            }
            if let Some(t) = d {
                if t.fractional() >= 250 || (t.node() as usize) >= NODES {
                    return false;
                }
            }
            k += 1;
        }
        let mut n = 0;
        while n < NODES {
            let node = n as u8;
            let max = max_of(set, node);
            let mut s = 0;
            while s < N {
                if let Some(t) = max[s] {
                    if t.node() != node || t.fractional() >= 250 {
                        return false;
                    }
                }
                s += 1;
            }
            if set.versions.safe_last_stamps.get(&node).copied() != spec_cutoff(&max, node) {
                return false;
            }
            n += 1;
        }
        true
    }

    /// An arbitrary state satisfying the invariant, built directly in the private fields.
    pub fn any_state<const N: usize>() -> OrSWotSet<N> {
        let mut set = OrSWotSet::<N>::default();
        let mut k = 0;
        while k < KEYS {
            let key = k as Key;
            let which: u8 = kani::any();
            if which == 1 {
                set.entries.insert(key, any_ts());
            } else if which == 2 {
                set.dead.insert(key, any_ts());
            }
            k += 1;
        }
        let mut n = 0;
        while n < NODES {
            let node = n as u8;
            let mut max = [None; N];
            let mut s = 0;
            while s < N {
                if kani::any() {
                    let t = any_ts_of(node);
                    set.versions.nodes_max_stamps[s].insert(node, t);
                    max[s] = Some(t);
                }
                s += 1;
            }
            if let Some(c) = spec_cutoff(&max, node) {
                set.versions.safe_last_stamps.insert(node, c);
            }
            n += 1;
        }
        set
    }

    /// What a replica shows for one key: live at t / tombstoned at t / nothing.
    #[derive(Copy, Clone, PartialEq, Eq, Debug)]
    pub enum View {
        Nothing,
        Live(HLCTimestamp),
        Dead(HLCTimestamp),
    }

    pub fn view_of<const N: usize>(set: &OrSWotSet<N>, key: Key) -> View {
        match set.get(&key) {
            Some(t) => View::Live(*t),
            None => match set.dead.get(&key) {
                Some(t) => View::Dead(*t),
                None => View::Nothing,
            },
        }
    }

    /// Last-writer-wins join of a view with one operation (an insert wins an exact tie).
    pub fn lww(view: View, is_delete: bool, ts: HLCTimestamp) -> View {
        let op = if is_delete { View::Dead(ts) } else { View::Live(ts) };
        match view {
            View::Nothing => op,
            View::Live(t) => {
                if ts > t {
                    op
                } else {
                    view
                }
            },
            View::Dead(t) => {
                if ts > t || (ts == t && !is_delete) {
                    op
                } else {
                    view
                }
            },
        }
    }

    /// Newest stamp the replica has seen from `node` on any source.
    pub fn newest_seen<const N: usize>(set: &OrSWotSet<N>, node: u8) -> Option<HLCTimestamp> {
        let mut best: Option<HLCTimestamp> = None;
        let mut s = 0;
        while s < N {
            if let Some(t) = set.versions.nodes_max_stamps[s].get(&node).copied() {
                best = match best {
                    Some(b) if b >= t => Some(b),
                    _ => Some(t),
                };
            }
            s += 1;
        }
        best
    }

    /// "not older than the forgiveness window relative to what the replica has already seen
    /// from its origin": strictly inside the window in whole seconds, so whatever the
    /// fraction/counter are the stamp is not before the purge cut-off.
    pub fn timely<const N: usize>(set: &OrSWotSet<N>, ts: HLCTimestamp) -> bool {
        match newest_seen(set, ts.node()) {
            Some(m) => ts.seconds() + WINDOW > m.seconds(),
            None => true,
        }
    }


    /// Newest stamp seen from *any* origin on any source: a lower bound on "now" up to clock skew.
    pub fn newest_seen_any<const N: usize>(set: &OrSWotSet<N>) -> Option<HLCTimestamp> {
        let mut best: Option<HLCTimestamp> = None;
        let mut n = 0;
        while n < NODES {
            if let Some(t) = newest_seen(set, n as u8) {
                best = match best {
                    Some(b) if b.seconds() >= t.seconds() => Some(b),
                    _ => Some(t),
                };
            }
            n += 1;
        }
        best
    }

    /// "the operation reaches the replica less than the forgiveness period after its timestamp,
    /// clock skew included": the replica has seen nothing, from any origin, stamped 3600 s or
    /// more after it.
    pub fn timely_global<const N: usize>(set: &OrSWotSet<N>, ts: HLCTimestamp) -> bool {
        match newest_seen_any(set) {
            Some(m) => ts.seconds() + WINDOW > m.seconds(),
            None => true,
        }
    }

    /// The stamp does not occur anywhere in the state (operations carry distinct stamps).
    pub fn fresh_stamp<const N: usize>(set: &OrSWotSet<N>, ts: HLCTimestamp) -> bool {
        let mut k = 0;
        while k < KEYS {
            let key = k as Key;
            if set.entries.get(&key).copied() == Some(ts) || set.dead.get(&key).copied() == Some(ts) {
                return false;
            }
            k += 1;
        }
        let mut s = 0;
        while s < N {
            if set.versions.nodes_max_stamps[s].get(&ts.node()).copied() == Some(ts) {
                return false;
            }
            s += 1;
        }
        true
    }

    pub fn forget<T>(t: T) {
        core::mem::forget(t)
    }
}

// Public (solver-build only) constructors/observers for harnesses that live in *other* crates
// (the keyspace actor mount): they cannot reach OrSWotSet's private fields themselves.
#[cfg(kani)]
#[allow(dead_code)]
pub mod verif_api {
    use super::verif_support as vs;
    use super::*;
    pub use crate::vcoll_cfg::{KEYS, NODES};
    #[cfg(not(feature = "verif_replay"))]
    pub use crate::vcoll::{IdVec, RefSet as HashSet, Vec};
    #[cfg(feature = "verif_replay")]
    pub use std::collections::HashSet;
    #[cfg(feature = "verif_replay")]
    pub type IdVec = std::vec::Vec<u64>;
    /// what `use std::collections::...;` lines of the keyspace actor are redirected to in the solver build
    #[cfg(not(feature = "verif_replay"))]
    pub mod coll {
        pub use crate::vcoll::{BTreeMap, HashMap, RefSet as HashSet};
    }

    /// (0 nothing | 1 live | 2 tombstone, stamp)
    pub fn view2(set: &OrSWotSet<2>, key: Key) -> (u8, u64) {
        match vs::view_of(set, key) {
            vs::View::Nothing => (0, 0),
            vs::View::Live(t) => (1, t.as_u64()),
            vs::View::Dead(t) => (2, t.as_u64()),
        }
    }

    pub fn any_state2() -> OrSWotSet<2> {
        vs::any_state::<2>()
    }

    pub fn inv2(set: &OrSWotSet<2>) -> bool {
        vs::inv(set)
    }

    pub fn any_ts() -> HLCTimestamp {
        vs::any_ts()
    }

    pub fn any_key() -> Key {
        vs::any_key()
    }

    /// the purge cut-off the set holds for `node` (None: nothing seen from it)
    pub fn cutoff2(set: &OrSWotSet<2>, node: u8) -> Option<HLCTimestamp> {
        vs::spec_cutoff(&vs::max_of(set, node), node)
    }
}

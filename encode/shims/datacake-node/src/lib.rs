//! Shim of `datacake-node` for the solver build: only what keyspace/actor.rs, group.rs and
//! storage.rs touch.  The real `Clock` is a tokio actor (cannot be compiled by Kani); this one
//! hands out arbitrary strictly increasing stamps carrying the node's id, which is what C09
//! establishes for the real clock.
use datacake_crdt::HLCTimestamp;

pub type NodeId = u8;

#[derive(Clone)]
pub struct Clock {
    node_id: NodeId,
}

// unique magic initial value: see the note on static aliasing in harness_c09.rs
static mut LAST: u64 = 0xA5A5_2001_5EED_2001;
const LAST_INIT: u64 = 0xA5A5_2001_5EED_2001;

impl Clock {
    pub fn new(node_id: NodeId) -> Self {
        Self { node_id }
    }

    pub async fn register_ts(&self, _ts: HLCTimestamp) {}

    pub async fn get_time(&self) -> HLCTimestamp {
        #[cfg(kani)]
        {
            let v: u64 = kani::any();
            let ts = HLCTimestamp::from_u64((v & !0xFF) | self.node_id as u64);
            kani::assume(ts.fractional() < 250);
            unsafe {
                if LAST != LAST_INIT {
                    kani::assume(ts.as_u64() > LAST);
                }
                LAST = ts.as_u64();
            }
            ts
        }
        #[cfg(not(kani))]
        {
            unsafe {
                LAST = if LAST == LAST_INIT { 1 << 40 } else { LAST + (1 << 8) };
                HLCTimestamp::from_u64((LAST & !0xFF) | self.node_id as u64)
            }
        }
    }
}

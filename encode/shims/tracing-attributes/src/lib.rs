extern crate proc_macro;
use proc_macro::TokenStream;

/// Pass-through `#[instrument]`.
#[proc_macro_attribute]
pub fn instrument(_attr: TokenStream, item: TokenStream) -> TokenStream {
    item
}

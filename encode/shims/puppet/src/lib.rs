//! Shim of `puppet` for the solver build.  The real crate spawns the actor on tokio and
//! dispatches messages through a channel; here `#[puppet_actor]` re-emits the impl block
//! unchanged (minus the inner `#[puppet]` markers) so that the handler methods can be called
//! directly, and `ActorMailbox` is an inert handle.
pub use puppet_derive::puppet_actor;

pub trait Message {
    type Output;
}

#[macro_export]
macro_rules! derive_message {
    ($msg:ident, $output:ty) => {
        impl $crate::Message for $msg {
            type Output = $output;
        }
    };
}

pub struct ActorMailbox<A> {
    pub actor: A,
}

impl<A> ActorMailbox<A> {
    pub fn new(actor: A) -> Self {
        Self { actor }
    }
}

//! Shim of `rand` for the solver build: `thread_rng()` yields a generator whose draws are
//! arbitrary (`kani::any()`), and `IteratorRandom::choose_multiple` returns an ARBITRARY subset of
//! size min(amount, len) in arbitrary order - its documented contract; the sampling algorithm and
//! the distribution are not encoded.
pub struct ThreadRng;

pub fn thread_rng() -> ThreadRng {
    ThreadRng
}

pub trait Rng {
    fn pick(&mut self, bound: usize) -> usize;
}

impl Rng for ThreadRng {
    fn pick(&mut self, bound: usize) -> usize {
        #[cfg(kani)]
        {
            let v: usize = kani::any();
            kani::assume(v < bound);
            v
        }
        #[cfg(not(kani))]
        {
            let _ = bound;
            0
        }
    }
}

pub mod seq {
    use super::Rng;

    pub trait IteratorRandom: Iterator + Sized {
        fn choose_multiple<R: Rng + ?Sized>(self, rng: &mut R, amount: usize) -> Vec<Self::Item> {
            let mut all: Vec<Self::Item> = self.collect();
            let mut out = Vec::with_capacity(amount);
            let mut i = 0;
            while i < amount && !all.is_empty() {
                let j = rng.pick(all.len());
                out.push(all.swap_remove(j));
                i += 1;
            }
            out
        }
    }

    impl<I: Iterator + Sized> IteratorRandom for I {}
}

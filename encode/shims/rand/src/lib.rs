//! Shim of `rand` for the solver build: `thread_rng()` yields a generator whose draws are
//! arbitrary (`kani::any()`), and `IteratorRandom::choose_multiple` returns an ARBITRARY subset of
//! size min(amount, len) in arbitrary order - its documented contract; the sampling algorithm and
//! the distribution are not encoded.
pub struct ThreadRng;

pub fn thread_rng() -> ThreadRng {
    ThreadRng
}

pub trait Rng {
    fn pick(&mut self, bound: usize) -> usize;
    fn reject(&mut self);
}

impl Rng for ThreadRng {
    fn pick(&mut self, bound: usize) -> usize {
        #[cfg(kani)]
        {
            let v: usize = kani::any();
            kani::assume(v < bound);
            v
        }
        #[cfg(not(kani))]
        {
            let _ = bound;
            0
        }
    }

    /// the draw just made is not a legal one (it names an element that was already taken): prune the path
    fn reject(&mut self) {
        #[cfg(kani)]
        kani::assume(false);
    }
}

pub mod seq {
    use super::Rng;

    pub trait IteratorRandom: Iterator + Sized {
        /// An arbitrary selection of `min(amount, len)` distinct elements in an arbitrary order: every output slot
        /// takes the element named by a fresh arbitrary draw; a draw naming an element that is already gone is
        /// pruned.  The element vector is only ever indexed with constants (a symbolic `swap_remove` on a heap Vec
        /// cost 2 M symbolic-execution steps for a choice of 1 out of 2).
        fn choose_multiple<R: Rng + ?Sized>(self, rng: &mut R, amount: usize) -> Vec<Self::Item> {
            let mut all: Vec<Option<Self::Item>> = self.map(Some).collect();
            let n = all.len();
            let take = if amount < n { amount } else { n };
            let mut out = Vec::with_capacity(take);
            let mut i = 0;
            while i < take {
                let j = rng.pick(n);
                let mut taken = None;
                let mut k = 0;
                while k < n {
                    if k == j {
                        taken = all[k].take();
                    }
                    k += 1;
                }
                match taken {
                    Some(x) => out.push(x),
                    None => rng.reject(),
                }
                i += 1;
            }
            out
        }
    }

    impl<I: Iterator + Sized> IteratorRandom for I {}
}

//! Pass-through `#[puppet_actor]`: strips the `#[puppet]` markers inside the impl block, adds a
//! `spawn_actor_with_name` that just wraps the actor, and re-emits everything else token for token.
extern crate proc_macro;
use proc_macro::{Delimiter, Group, TokenStream, TokenTree};

fn strip_markers(body: TokenStream) -> TokenStream {
    let toks: Vec<TokenTree> = body.into_iter().collect();
    let mut out: Vec<TokenTree> = Vec::new();
    let mut i = 0;
    while i < toks.len() {
        if let TokenTree::Punct(p) = &toks[i] {
            if p.as_char() == '#' && i + 1 < toks.len() {
                if let TokenTree::Group(g) = &toks[i + 1] {
                    if g.delimiter() == Delimiter::Bracket && g.stream().to_string().trim() == "puppet" {
                        i += 2;
                        continue;
                    }
                }
            }
        }
        out.push(toks[i].clone());
        i += 1;
    }
    out.into_iter().collect()
}

#[proc_macro_attribute]
pub fn puppet_actor(_attr: TokenStream, item: TokenStream) -> TokenStream {
    let mut toks: Vec<TokenTree> = item.into_iter().collect();
    if let Some(TokenTree::Group(g)) = toks.last().cloned() {
        if g.delimiter() == Delimiter::Brace {
            let extra: TokenStream = "pub async fn spawn_actor_with_name(self, _name: impl Into<String>) -> puppet::ActorMailbox<Self> { puppet::ActorMailbox::new(self) }"
                .parse()
                .unwrap();
            let mut body = strip_markers(g.stream());
            body.extend(extra);
            let n = toks.len();
            toks[n - 1] = TokenTree::Group(Group::new(Delimiter::Brace, body));
        }
    }
    toks.into_iter().collect()
}

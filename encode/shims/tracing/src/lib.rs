//! Shim of `tracing` for the solver build: logging is not the subject of any property and the
//! real dispatcher reaches thread-locals / catch_unwind (Kani ICE).  All macros expand to nothing,
//! `#[instrument]` re-emits the function unchanged.
pub use tracing_attributes::instrument;

#[macro_export]
macro_rules! trace { ($($t:tt)*) => {{}}; }
#[macro_export]
macro_rules! debug { ($($t:tt)*) => {{}}; }
#[macro_export]
macro_rules! info { ($($t:tt)*) => {{}}; }
#[macro_export]
macro_rules! warn { ($($t:tt)*) => {{}}; }
#[macro_export]
macro_rules! error { ($($t:tt)*) => {{}}; }

//! Shim of `datacake-rpc` for the solver build: storage.rs only names `Channel` as a field
//! type of `PutContext` (the real one wraps a hyper client, whose drop glue makes Kani ICE).
#[derive(Clone, Debug, Default)]
pub struct Channel;

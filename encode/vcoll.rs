//! vcoll — solver-friendly look-alikes of the `std::collections` / `Vec` API subset that
//! datacake-crdt's `orswot.rs` (and the keyspace actor) use.
//!
//! * Maps/sets are *direct-indexed* over a small key domain `0..DOM`; every access loops over
//!   constant indices, so CBMC never forms a symbolic-offset pointer.
//! * Iteration is in ascending key order (= `BTreeMap`; for `HashMap` it is one fixed order).
//! * `Vec` is a fixed-capacity value array with a stable, constant-bound sort.
//! * A key outside the domain or a push beyond the capacity is an `assert!` failure: the
//!   container bound plays the role of an unwinding assertion and can never silently truncate.
//!
//! The constants `DOM`, `KEYS`, `NODES`, `VCAP` come from the generated `vcoll_cfg.rs`.
#![allow(dead_code)]

use core::marker::PhantomData;

pub use crate::vcoll_cfg::{DOM, KEYS, NODES, VCAP};

#[cfg(feature = "rkyv")]
use rkyv::{Archive, Deserialize, Serialize};

/// Keys of a bounded domain.
pub trait DomKey: Copy + Ord {
    const SIZE: usize;
    fn idx(&self) -> usize;
    fn from_idx(i: usize) -> Self;
}

impl DomKey for u64 {
    const SIZE: usize = KEYS;
    #[inline]
    fn idx(&self) -> usize {
        *self as usize
    }
    #[inline]
    fn from_idx(i: usize) -> Self {
        i as u64
    }
}

impl DomKey for u8 {
    const SIZE: usize = NODES;
    #[inline]
    fn idx(&self) -> usize {
        *self as usize
    }
    #[inline]
    fn from_idx(i: usize) -> Self {
        i as u8
    }
}

#[inline]
fn index_of<K: DomKey>(k: &K) -> usize {
    let i = k.idx();
    assert!(i < K::SIZE, "vcoll: key outside the bounded domain (bound too small for this run)");
    i
}

// ------------------------------------------------------------------------------------------ Map

#[derive(Clone, Debug)]
#[repr(C)]
#[cfg_attr(feature = "rkyv", derive(Serialize, Deserialize, Archive))]
pub struct Map<K: DomKey, V> {
    keys: [K; DOM],
    vals: [Option<V>; DOM],
}

pub type BTreeMap<K, V> = Map<K, V>;
pub type HashMap<K, V> = Map<K, V>;

impl<K: DomKey, V> Default for Map<K, V> {
    fn default() -> Self {
        Self::new()
    }
}

impl<K: DomKey, V> Map<K, V> {
    pub fn new() -> Self {
        let mut i = 0usize;
        let keys = [(); DOM].map(|_| {
            let k = K::from_idx(i);
            i += 1;
            k
        });
        Self { keys, vals: [(); DOM].map(|_| None) }
    }

    pub fn with_capacity(_n: usize) -> Self {
        Self::new()
    }

    pub fn len(&self) -> usize {
        let mut n = 0;
        let mut j = 0;
        while j < DOM {
            if self.vals[j].is_some() {
                n += 1;
            }
            j += 1;
        }
        n
    }

    pub fn is_empty(&self) -> bool {
        self.len() == 0
    }

    pub fn clear(&mut self) {
        let mut j = 0;
        while j < DOM {
            self.vals[j] = None;
            j += 1;
        }
    }

    pub fn get(&self, k: &K) -> Option<&V> {
        let i = index_of(k);
        let mut j = 0;
        while j < DOM {
            if i == j {
                return self.vals[j].as_ref();
            }
            j += 1;
        }
        None
    }

    pub fn get_mut(&mut self, k: &K) -> Option<&mut V> {
        let i = index_of(k);
        let mut j = 0;
        while j < DOM {
            if i == j {
                return self.vals[j].as_mut();
            }
            j += 1;
        }
        None
    }

    pub fn contains_key(&self, k: &K) -> bool {
        self.get(k).is_some()
    }

    pub fn insert(&mut self, k: K, v: V) -> Option<V> {
        let i = index_of(&k);
        let mut j = 0;
        while j < DOM {
            if i == j {
                return core::mem::replace(&mut self.vals[j], Some(v));
            }
            j += 1;
        }
        None
    }

    pub fn remove(&mut self, k: &K) -> Option<V> {
        let i = index_of(k);
        let mut j = 0;
        while j < DOM {
            if i == j {
                return self.vals[j].take();
            }
            j += 1;
        }
        None
    }

    pub fn entry(&mut self, k: K) -> Entry<'_, K, V> {
        let i = index_of(&k);
        let mut j = 0;
        while j < DOM {
            if i == j {
                let slot = &mut self.vals[j];
                return if slot.is_some() {
                    Entry::Occupied(OccupiedEntry { key: k, slot })
                } else {
                    Entry::Vacant(VacantEntry { key: k, slot })
                };
            }
            j += 1;
        }
        unreachable!()
    }

    pub fn iter(&self) -> Iter<'_, K, V> {
        Iter { map: self, pos: 0 }
    }

    pub fn keys(&self) -> Keys<'_, K, V> {
        Keys { inner: self.iter() }
    }

    pub fn values(&self) -> Values<'_, K, V> {
        Values { inner: self.iter() }
    }
}

pub struct Iter<'a, K: DomKey, V> {
    map: &'a Map<K, V>,
    pos: usize,
}

impl<'a, K: DomKey, V> Iterator for Iter<'a, K, V> {
    type Item = (&'a K, &'a V);

    fn next(&mut self) -> Option<Self::Item> {
        let mut j = 0;
        while j < DOM {
            if j >= self.pos {
                if let Some(v) = self.map.vals[j].as_ref() {
                    self.pos = j + 1;
                    return Some((&self.map.keys[j], v));
                }
            }
            j += 1;
        }
        self.pos = DOM;
        None
    }
}

pub struct Keys<'a, K: DomKey, V> {
    inner: Iter<'a, K, V>,
}

impl<'a, K: DomKey, V> Iterator for Keys<'a, K, V> {
    type Item = &'a K;
    fn next(&mut self) -> Option<&'a K> {
        self.inner.next().map(|(k, _)| k)
    }
}

pub struct Values<'a, K: DomKey, V> {
    inner: Iter<'a, K, V>,
}

impl<'a, K: DomKey, V> Iterator for Values<'a, K, V> {
    type Item = &'a V;
    fn next(&mut self) -> Option<&'a V> {
        self.inner.next().map(|(_, v)| v)
    }
}

impl<'a, K: DomKey, V> IntoIterator for &'a Map<K, V> {
    type Item = (&'a K, &'a V);
    type IntoIter = Iter<'a, K, V>;
    fn into_iter(self) -> Iter<'a, K, V> {
        self.iter()
    }
}

pub struct IntoIter<K: DomKey, V> {
    map: Map<K, V>,
    pos: usize,
}

impl<K: DomKey, V> Iterator for IntoIter<K, V> {
    type Item = (K, V);

    fn next(&mut self) -> Option<(K, V)> {
        let mut j = 0;
        while j < DOM {
            if j >= self.pos {
                if let Some(v) = self.map.vals[j].take() {
                    self.pos = j + 1;
                    return Some((self.map.keys[j], v));
                }
            }
            j += 1;
        }
        self.pos = DOM;
        None
    }
}

impl<K: DomKey, V> IntoIterator for Map<K, V> {
    type Item = (K, V);
    type IntoIter = IntoIter<K, V>;
    fn into_iter(self) -> IntoIter<K, V> {
        IntoIter { map: self, pos: 0 }
    }
}

impl<K: DomKey, V> FromIterator<(K, V)> for Map<K, V> {
    fn from_iter<I: IntoIterator<Item = (K, V)>>(iter: I) -> Self {
        let mut m = Self::new();
        for (k, v) in iter {
            m.insert(k, v);
        }
        m
    }
}

impl<K: DomKey, V: PartialEq> PartialEq for Map<K, V> {
    fn eq(&self, other: &Self) -> bool {
        let mut j = 0;
        while j < DOM {
            if self.vals[j] != other.vals[j] {
                return false;
            }
            j += 1;
        }
        true
    }
}

pub enum Entry<'a, K: DomKey, V> {
    Occupied(OccupiedEntry<'a, K, V>),
    Vacant(VacantEntry<'a, K, V>),
}

pub struct OccupiedEntry<'a, K: DomKey, V> {
    key: K,
    slot: &'a mut Option<V>,
}

pub struct VacantEntry<'a, K: DomKey, V> {
    key: K,
    slot: &'a mut Option<V>,
}

impl<'a, K: DomKey, V> OccupiedEntry<'a, K, V> {
    pub fn key(&self) -> &K {
        &self.key
    }
    pub fn get(&self) -> &V {
        match self.slot.as_ref() {
            Some(v) => v,
            None => unreachable!(),
        }
    }
    pub fn get_mut(&mut self) -> &mut V {
        match self.slot.as_mut() {
            Some(v) => v,
            None => unreachable!(),
        }
    }
    pub fn into_mut(self) -> &'a mut V {
        match self.slot.as_mut() {
            Some(v) => v,
            None => unreachable!(),
        }
    }
    pub fn insert(&mut self, v: V) -> V {
        match core::mem::replace(self.slot, Some(v)) {
            Some(old) => old,
            None => unreachable!(),
        }
    }
    pub fn remove(self) -> V {
        match self.slot.take() {
            Some(old) => old,
            None => unreachable!(),
        }
    }
}

impl<'a, K: DomKey, V> VacantEntry<'a, K, V> {
    pub fn key(&self) -> &K {
        &self.key
    }
    pub fn insert(self, v: V) -> &'a mut V {
        *self.slot = Some(v);
        match self.slot.as_mut() {
            Some(v) => v,
            None => unreachable!(),
        }
    }
}

impl<'a, K: DomKey, V> Entry<'a, K, V> {
    pub fn and_modify<F: FnOnce(&mut V)>(self, f: F) -> Self {
        match self {
            Entry::Occupied(mut e) => {
                f(e.get_mut());
                Entry::Occupied(e)
            },
            Entry::Vacant(e) => Entry::Vacant(e),
        }
    }

    pub fn or_insert_with<F: FnOnce() -> V>(self, f: F) -> &'a mut V {
        match self {
            Entry::Occupied(e) => e.into_mut(),
            Entry::Vacant(e) => e.insert(f()),
        }
    }

    pub fn or_insert(self, v: V) -> &'a mut V {
        match self {
            Entry::Occupied(e) => e.into_mut(),
            Entry::Vacant(e) => e.insert(v),
        }
    }
}

pub mod btree_map {
    pub use super::{Entry, IntoIter, Iter, OccupiedEntry, VacantEntry};
    pub type BTreeMap<K, V> = super::Map<K, V>;
}

pub mod hash_map {
    pub use super::{Entry, IntoIter, Iter, OccupiedEntry, VacantEntry};
    pub type HashMap<K, V> = super::Map<K, V>;
}

// ------------------------------------------------------------------------------------------ Set

#[derive(Clone, Debug)]
pub struct HashSet<K: DomKey> {
    present: [bool; DOM],
    _k: PhantomData<K>,
}

impl<K: DomKey> Default for HashSet<K> {
    fn default() -> Self {
        Self::new()
    }
}

impl<K: DomKey> HashSet<K> {
    pub fn new() -> Self {
        Self { present: [false; DOM], _k: PhantomData }
    }

    pub fn insert(&mut self, k: K) -> bool {
        let i = index_of(&k);
        let mut j = 0;
        while j < DOM {
            if i == j {
                let was = self.present[j];
                self.present[j] = true;
                return !was;
            }
            j += 1;
        }
        false
    }

    pub fn contains(&self, k: &K) -> bool {
        let i = index_of(k);
        let mut j = 0;
        while j < DOM {
            if i == j {
                return self.present[j];
            }
            j += 1;
        }
        false
    }

    pub fn len(&self) -> usize {
        let mut n = 0;
        let mut j = 0;
        while j < DOM {
            if self.present[j] {
                n += 1;
            }
            j += 1;
        }
        n
    }

    pub fn is_empty(&self) -> bool {
        self.len() == 0
    }
}

pub struct SetIntoIter<K: DomKey> {
    present: [bool; DOM],
    pos: usize,
    _k: PhantomData<K>,
}

impl<K: DomKey> Iterator for SetIntoIter<K> {
    type Item = K;
    fn next(&mut self) -> Option<K> {
        let mut j = 0;
        while j < DOM {
            if j >= self.pos && self.present[j] {
                self.pos = j + 1;
                return Some(K::from_idx(j));
            }
            j += 1;
        }
        self.pos = DOM;
        None
    }
}

impl<K: DomKey> IntoIterator for HashSet<K> {
    type Item = K;
    type IntoIter = SetIntoIter<K>;
    fn into_iter(self) -> SetIntoIter<K> {
        SetIntoIter { present: self.present, pos: 0, _k: PhantomData }
    }
}

impl<K: DomKey> FromIterator<K> for HashSet<K> {
    fn from_iter<I: IntoIterator<Item = K>>(iter: I) -> Self {
        let mut s = Self::new();
        for k in iter {
            s.insert(k);
        }
        s
    }
}

/// `HashSet<&Key>` look-alike for `HashSet::<_>::from_iter(slice_of_keys)` + `contains(&key)`.
#[derive(Clone, Debug)]
pub struct RefSet<T> {
    present: [bool; DOM],
    _t: PhantomData<T>,
}

impl<'a> FromIterator<&'a u64> for RefSet<&'a u64> {
    fn from_iter<I: IntoIterator<Item = &'a u64>>(iter: I) -> Self {
        let mut s = RefSet { present: [false; DOM], _t: PhantomData };
        for k in iter {
            let i = index_of(k);
            let mut j = 0;
            while j < DOM {
                if i == j {
                    s.present[j] = true;
                }
                j += 1;
            }
        }
        s
    }
}

impl<'a> RefSet<&'a u64> {
    pub fn contains(&self, k: &u64) -> bool {
        let i = index_of(k);
        let mut j = 0;
        while j < DOM {
            if i == j {
                return self.present[j];
            }
            j += 1;
        }
        false
    }
}

/// Fixed-capacity stand-in for the `Vec<Key>` inside `BulkMutationError` (storage.rs): one base
/// pointer, symbolic length <= VCAP, derefs to a slice like the real one.
#[derive(Clone, Debug)]
pub struct IdVec {
    buf: [u64; VCAP],
    len: usize,
}

impl Default for IdVec {
    fn default() -> Self {
        Self::new()
    }
}

impl IdVec {
    pub fn new() -> Self {
        Self { buf: [0; VCAP], len: 0 }
    }

    pub fn push(&mut self, k: u64) {
        assert!(self.len < VCAP, "vcoll: IdVec capacity exceeded (bound too small for this run)");
        let mut j = 0;
        while j < VCAP {
            if j == self.len {
                self.buf[j] = k;
            }
            j += 1;
        }
        self.len += 1;
    }
}

impl core::ops::Deref for IdVec {
    type Target = [u64];
    fn deref(&self) -> &[u64] {
        &self.buf[..self.len]
    }
}

// ------------------------------------------------------------------------------------------ Vec

#[derive(Clone, Debug)]
pub struct Vec<T> {
    buf: [Option<T>; VCAP],
    len: usize,
}

impl<T> Default for Vec<T> {
    fn default() -> Self {
        Self::new()
    }
}

impl<T> Vec<T> {
    pub fn new() -> Self {
        Self { buf: [(); VCAP].map(|_| None), len: 0 }
    }

    pub fn with_capacity(_n: usize) -> Self {
        Self::new()
    }

    pub fn len(&self) -> usize {
        self.len
    }

    pub fn is_empty(&self) -> bool {
        self.len == 0
    }

    pub fn push(&mut self, v: T) {
        assert!(self.len < VCAP, "vcoll: Vec capacity exceeded (bound too small for this run)");
        let mut j = 0;
        let mut v = Some(v);
        while j < VCAP {
            if j == self.len {
                self.buf[j] = v.take();
            }
            j += 1;
        }
        self.len += 1;
    }

    pub fn get(&self, i: usize) -> Option<&T> {
        let mut j = 0;
        while j < VCAP {
            if j == i && j < self.len {
                return self.buf[j].as_ref();
            }
            j += 1;
        }
        None
    }

    pub fn iter(&self) -> VecIter<'_, T> {
        VecIter { v: self, pos: 0 }
    }

    pub fn extend<I: IntoIterator<Item = T>>(&mut self, iter: I) {
        for x in iter {
            self.push(x);
        }
    }

    pub fn clear(&mut self) {
        let mut j = 0;
        while j < VCAP {
            self.buf[j] = None;
            j += 1;
        }
        self.len = 0;
    }

    /// Stable sort (bubble network with constant bounds; only strictly greater neighbours swap).
    pub fn sort_by_key<K: Ord, F: FnMut(&T) -> K>(&mut self, mut f: F) {
        let mut pass = 0;
        while pass < VCAP {
            let mut j = 0;
            while j + 1 < VCAP {
                if j + 1 < self.len {
                    let swap = match (self.buf[j].as_ref(), self.buf[j + 1].as_ref()) {
                        (Some(a), Some(b)) => f(a) > f(b),
                        _ => false,
                    };
                    if swap {
                        self.buf.swap(j, j + 1);
                    }
                }
                j += 1;
            }
            pass += 1;
        }
    }

    pub fn contains(&self, x: &T) -> bool
    where
        T: PartialEq,
    {
        let mut j = 0;
        while j < VCAP {
            if j < self.len {
                if let Some(v) = self.buf[j].as_ref() {
                    if v == x {
                        return true;
                    }
                }
            }
            j += 1;
        }
        false
    }
}

impl<T> core::ops::Index<usize> for Vec<T> {
    type Output = T;
    fn index(&self, i: usize) -> &T {
        match self.get(i) {
            Some(v) => v,
            None => panic!("vcoll: Vec index out of bounds"),
        }
    }
}

pub struct VecIter<'a, T> {
    v: &'a Vec<T>,
    pos: usize,
}

impl<'a, T> Iterator for VecIter<'a, T> {
    type Item = &'a T;
    fn next(&mut self) -> Option<&'a T> {
        let mut j = 0;
        while j < VCAP {
            if j == self.pos && j < self.v.len {
                self.pos = j + 1;
                return self.v.buf[j].as_ref();
            }
            j += 1;
        }
        None
    }
}

impl<'a, T> IntoIterator for &'a Vec<T> {
    type Item = &'a T;
    type IntoIter = VecIter<'a, T>;
    fn into_iter(self) -> VecIter<'a, T> {
        self.iter()
    }
}

pub struct VecIntoIter<T> {
    v: Vec<T>,
    pos: usize,
}

impl<T> Iterator for VecIntoIter<T> {
    type Item = T;
    fn next(&mut self) -> Option<T> {
        // `pos` advances unconditionally and so stays a constant on every path: the solver sees the end of
        // the iteration syntactically and a consuming loop is unrolled VCAP times, not `unwind` times.
        // Slots at and beyond `len` are always None (push fills slot `len`, clear empties every slot, the
        // sort only swaps occupied neighbours), so the first None ends the iteration exactly like std's.
        if self.pos >= VCAP {
            return None;
        }
        let j = self.pos;
        self.pos += 1;
        self.v.buf[j].take()
    }
}

impl<T> IntoIterator for Vec<T> {
    type Item = T;
    type IntoIter = VecIntoIter<T>;
    fn into_iter(self) -> VecIntoIter<T> {
        VecIntoIter { v: self, pos: 0 }
    }
}

impl<T> FromIterator<T> for Vec<T> {
    fn from_iter<I: IntoIterator<Item = T>>(iter: I) -> Self {
        let mut v = Self::new();
        for x in iter {
            v.push(x);
        }
        v
    }
}

impl<T: PartialEq> PartialEq for Vec<T> {
    fn eq(&self, other: &Self) -> bool {
        if self.len != other.len {
            return false;
        }
        let mut j = 0;
        while j < VCAP {
            if j < self.len && self.buf[j] != other.buf[j] {
                return false;
            }
            j += 1;
        }
        true
    }
}

impl<T: PartialEq, const M: usize> PartialEq<[T; M]> for Vec<T> {
    fn eq(&self, other: &[T; M]) -> bool {
        if self.len != M {
            return false;
        }
        let mut j = 0;
        while j < M {
            match self.get(j) {
                Some(v) if *v == other[j] => {},
                _ => return false,
            }
            j += 1;
        }
        true
    }
}

impl<T: PartialEq> PartialEq<std::vec::Vec<T>> for Vec<T> {
    fn eq(&self, other: &std::vec::Vec<T>) -> bool {
        if self.len != other.len() {
            return false;
        }
        let mut j = 0;
        while j < other.len() {
            match self.get(j) {
                Some(v) if *v == other[j] => {},
                _ => return false,
            }
            j += 1;
        }
        true
    }
}

#[macro_export]
macro_rules! vcoll_vec {
    () => { $crate::vcoll::Vec::new() };
    ($($x:expr),+ $(,)?) => {{
        let mut v = $crate::vcoll::Vec::new();
        $( v.push($x); )+
        v
    }};
}

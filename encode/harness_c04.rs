// C04 — per key the greatest timestamp wins, whatever order operations arrive in; the return
// value of insert/delete and the will_apply prediction are true exactly when the view changed.
#[cfg(kani)]
mod verif_c04 {
    use super::verif_support::*;
    use super::*;

    #[derive(Copy, Clone)]
    struct Op {
        is_delete: bool,
        key: Key,
        ts: HLCTimestamp,
        source: usize,
    }

    fn any_op<const N: usize>() -> Op {
        Op { is_delete: kani::any(), key: any_key(), ts: any_ts(), source: any_source::<N>() }
    }

    fn apply<const N: usize>(set: &mut OrSWotSet<N>, op: &Op) -> bool {
        if op.is_delete {
            set.delete_with_source(op.source, op.key, op.ts)
        } else {
            set.insert_with_source(op.source, op.key, op.ts)
        }
    }

    // ------------------------------------------------------------------ inductive step
    // Arbitrary invariant-satisfying replica, one arbitrary timely operation with a fresh stamp.
    fn step<const N: usize>() {
        let mut set = any_state::<N>();
        let op = any_op::<N>();
        kani::assume(fresh_stamp(&set, op.ts));
        kani::assume(timely(&set, op.ts));

        let mut before = [View::Nothing; KEYS];
        let mut k = 0;
        while k < KEYS {
            before[k] = view_of(&set, k as Key);
            k += 1;
        }
        let predicted = set.will_apply(op.key, op.ts);
        let ret = apply(&mut set, &op);

        let mut k = 0;
        while k < KEYS {
            let key = k as Key;
            let after = view_of(&set, key);
            if key == op.key {
                let want = lww(before[k], op.is_delete, op.ts);
                assert!(after == want, "the key shows the greater of (what it showed, the operation)");
                assert!(ret == (after != before[k]), "the return value is true exactly when the view of the key changed");
                assert!(predicted == ret, "will_apply made just before predicts the outcome");
            } else {
                assert!(after == before[k], "other keys are untouched");
            }
            k += 1;
        }
        assert!(inv(&set), "the representation invariant is preserved");
        kani::cover!(ret && op.is_delete, "delete applied");
        kani::cover!(ret && !op.is_delete, "insert applied");
        kani::cover!(!ret, "operation refused (older than what the key shows)");
        kani::cover!(ret && newest_seen(&set, op.ts.node()).map(|m| m > op.ts).unwrap_or(false),
                     "applied although an even newer stamp from the same origin was seen before");
        forget(set);
    }

    #[kani::proof]
    #[kani::unwind(@@UNWIND@@)]
    fn c04_step_n2() {
        step::<2>();
    }

    #[kani::proof]
    #[kani::unwind(@@UNWIND@@)]
    fn c04_step_n1() {
        step::<1>();
    }

    // an operation that is *before* the cut-off is refused by both will_apply and the mutator and
    // changes nothing visible (the other side of the window precondition)
    fn step_stale<const N: usize>() {
        let mut set = any_state::<N>();
        let op = any_op::<N>();
        let cut = set.versions.safe_last_stamps.get(&op.ts.node()).copied();
        kani::assume(match cut {
            Some(c) => op.ts < c,
            None => false,
        });
        let mut before = [View::Nothing; KEYS];
        let mut k = 0;
        while k < KEYS {
            before[k] = view_of(&set, k as Key);
            k += 1;
        }
        assert!(!set.will_apply(op.key, op.ts), "an operation before the purge cut-off is predicted not to apply");
        let ret = apply(&mut set, &op);
        assert!(!ret, "an operation before the purge cut-off is refused");
        let mut k = 0;
        while k < KEYS {
            assert!(view_of(&set, k as Key) == before[k], "a refused operation changes nothing");
            k += 1;
        }
        assert!(inv(&set));
        kani::cover!(true, "stale operation exists");
        forget(set);
    }

    #[kani::proof]
    #[kani::unwind(@@UNWIND@@)]
    fn c04_step_stale_n2() {
        step_stale::<2>();
    }

    // ------------------------------------------------------------------ histories from the empty set
    // K operations with pairwise distinct stamps, arbitrary keys/sources/arrival order; every
    // operation is timely with respect to what arrived before it from the same origin.
    fn history<const N: usize, const K: usize>() {
        let mut set = OrSWotSet::<N>::default();
        let mut ops = [Op { is_delete: false, key: 0, ts: HLCTimestamp::from_u64(0), source: 0 }; K];
        let mut i = 0;
        while i < K {
            ops[i] = any_op::<N>();
            let mut j = 0;
            while j < i {
                kani::assume(ops[j].ts != ops[i].ts);
                if ops[j].ts.node() == ops[i].ts.node() {
                    kani::assume(ops[i].ts.seconds() + WINDOW > ops[j].ts.seconds());
                }
                j += 1;
            }
            i += 1;
        }
        let mut i = 0;
        let mut any_refused = false;
        while i < K {
            let before = view_of(&set, ops[i].key);
            let predicted = set.will_apply(ops[i].key, ops[i].ts);
            let ret = apply(&mut set, &ops[i]);
            let after = view_of(&set, ops[i].key);
            assert!(ret == (after != before), "return value == view changed");
            assert!(predicted == ret, "will_apply == outcome");
            any_refused |= !ret;
            i += 1;
        }
        // oracle: fold of last-writer-wins over the operation multiset, per key
        let mut k = 0;
        while k < KEYS {
            let key = k as Key;
            let mut want = View::Nothing;
            let mut i = 0;
            while i < K {
                if ops[i].key == key {
                    want = lww(want, ops[i].is_delete, ops[i].ts);
                }
                i += 1;
            }
            match want {
                View::Live(t) => assert!(set.get(&key).copied() == Some(t), "greatest operation is an insert at t: live at t"),
                _ => assert!(set.get(&key).is_none(), "greatest operation is a delete (or none): not live"),
            }
            assert!(view_of(&set, key) == want);
            k += 1;
        }
        assert!(inv(&set));
        kani::cover!(any_refused, "some operation arrived after a newer one for its key");
        kani::cover!(K >= 2 && ops[0].ts > ops[1].ts && ops[0].ts.node() == ops[1].ts.node() && ops[0].source == ops[1].source,
                     "same origin, same source, newer stamp first");
        forget(set);
    }

    #[kani::proof]
    #[kani::unwind(@@UNWIND@@)]
    fn c04_history_k2_n2() {
        history::<2, 2>();
    }

    #[kani::proof]
    #[kani::unwind(@@UNWIND@@)]
    fn c04_history_k3_n2() {
        history::<2, 3>();
    }

    #[kani::proof]
    #[kani::unwind(@@UNWIND@@)]
    fn c04_history_k3_n1() {
        history::<1, 3>();
    }

    #[kani::proof]
    #[kani::unwind(@@UNWIND@@)]
    fn c04_history_k4_n2() {
        history::<2, 4>();
    }
    // @@PLAYBACK@@
}

// C05 — the computed difference is exactly what a replica lacks; one exchange repairs.
#[cfg(kani)]
mod verif_c05 {
    use super::verif_support::*;
    use super::*;

    fn count_in(list: &StateChanges, key: Key, ts: HLCTimestamp) -> usize {
        let mut hits = 0;
        let mut i = 0;
        while i < KEYS {
            if i < list.len() && list[i] == (key, ts) {
                hits += 1;
            }
            i += 1;
        }
        hits
    }

    fn mentions(list: &StateChanges, key: Key) -> usize {
        let mut hits = 0;
        let mut i = 0;
        while i < KEYS {
            if i < list.len() && list[i].0 == key {
                hits += 1;
            }
            i += 1;
        }
        hits
    }

    /// Does replica `a` lack the peer's operation (key, tb)?  (the property's definition)
    fn lacks<const N: usize>(a: &OrSWotSet<N>, key: Key, tb: HLCTimestamp) -> bool {
        match view_of(a, key) {
            View::Live(ta) | View::Dead(ta) => ta < tb,
            View::Nothing => match spec_cutoff(&max_of(a, tb.node()), tb.node()) {
                Some(c) => !(tb < c),
                None => true,
            },
        }
    }

    // ---- part 1: exactness of diff on two arbitrary invariant-satisfying states
    fn diff_exact<const N: usize>() {
        let a = any_state::<N>();
        let b = any_state::<N>();
        let (changes, removals) = a.diff(&b);
        let mut want_changes = 0;
        let mut want_removals = 0;
        let mut k = 0;
        while k < KEYS {
            let key = k as Key;
            match view_of(&b, key) {
                View::Live(tb) => {
                    let l = lacks(&a, key, tb);
                    assert!(count_in(&changes, key, tb) == if l { 1 } else { 0 },
                            "a live key of the peer is listed as a modification, once, with the peer's stamp, exactly when it is lacking");
                    assert!(mentions(&changes, key) == if l { 1 } else { 0 });
                    assert!(mentions(&removals, key) == 0, "a live key is never listed as a removal");
                    if l {
                        want_changes += 1;
                    }
                },
                View::Dead(tb) => {
                    let l = lacks(&a, key, tb);
                    assert!(count_in(&removals, key, tb) == if l { 1 } else { 0 },
                            "a tombstoned key of the peer is listed as a removal, once, with the peer's stamp, exactly when it is lacking");
                    assert!(mentions(&removals, key) == if l { 1 } else { 0 });
                    assert!(mentions(&changes, key) == 0, "a tombstoned key is never listed as a modification");
                    if l {
                        want_removals += 1;
                    }
                },
                View::Nothing => {
                    assert!(mentions(&changes, key) == 0 && mentions(&removals, key) == 0, "a key the peer does not hold is not listed");
                },
            }
            k += 1;
        }
        assert!(changes.len() == want_changes && removals.len() == want_removals, "nothing else is listed");
        kani::cover!(want_changes >= 1 && want_removals >= 1, "both lists non-empty");
        kani::cover!(want_changes == 0 && want_removals == 0, "nothing lacking");
        forget(a);
        forget(b);
        forget(changes);
        forget(removals);
    }

    #[kani::proof]
    #[kani::unwind(@@UNWIND@@)]
    fn c05_diff_exact_n2@@SFX@@() {
        diff_exact::<2>();
    }

    #[kani::proof]
    #[kani::unwind(@@UNWIND@@)]
    fn c05_diff_exact_n1@@SFX@@() {
        diff_exact::<1>();
    }

    // a set never lacks anything of itself
    #[kani::proof]
    #[kani::unwind(@@UNWIND@@)]
    fn c05_self_diff_empty_n2@@SFX@@() {
        let a = any_state::<2>();
        // entries/tombstones that are already below the own cut-off with nothing held are the
        // only thing a self-diff could list; reachable states hold what they list
        let (changes, removals) = a.diff(&a);
        assert!(changes.len() == 0 && removals.len() == 0, "diff against itself is empty");
        kani::cover!(true, "reached");
        forget(a);
    }

    // ---- part 2: one exchange repairs.
    // Two replicas are built from ONE pool of operations with distinct stamps lying within one
    // forgiveness period: each replica has applied an arbitrary subset, in arbitrary order, on the
    // direct source (0).  A then applies A.diff(B) the way the repair path does — removals as
    // deletes, modifications as inserts in stamp order, each gated by will_apply, on the read-repair
    // source (1), the two batches in either order — and must then have nothing left to fetch; after
    // B does the same against the new A both show the same live ids and stamps.
    #[derive(Copy, Clone)]
    struct Op {
        is_delete: bool,
        key: Key,
        ts: HLCTimestamp,
    }

    const REPAIR_SOURCE: usize = 1;

    fn apply_batch(set: &mut OrSWotSet<2>, list: &StateChanges, as_delete: bool) {
        // on_multi_set/on_multi_del: filter by will_apply first, then apply in stamp order
        let mut chosen = [false; KEYS];
        let mut i = 0;
        while i < KEYS {
            if i < list.len() {
                chosen[i] = set.will_apply(list[i].0, list[i].1);
            }
            i += 1;
        }
        // stamp order: repeatedly take the smallest remaining
        let mut round = 0;
        while round < KEYS {
            let mut best: Option<usize> = None;
            let mut i = 0;
            while i < KEYS {
                if i < list.len() && chosen[i] {
                    best = match best {
                        Some(b) if list[b].1 <= list[i].1 => Some(b),
                        _ => Some(i),
                    };
                }
                i += 1;
            }
            if let Some(b) = best {
                chosen[b] = false;
                if as_delete {
                    set.delete_with_source(REPAIR_SOURCE, list[b].0, list[b].1);
                } else {
                    set.insert_with_source(REPAIR_SOURCE, list[b].0, list[b].1);
                }
            }
            round += 1;
        }
    }

    fn repair(me: &mut OrSWotSet<2>, peer: &OrSWotSet<2>, removals_first: bool) {
        let (changes, removals) = me.diff(peer);
        if removals_first {
            apply_batch(me, &removals, true);
            apply_batch(me, &changes, false);
        } else {
            apply_batch(me, &changes, false);
            apply_batch(me, &removals, true);
        }
        forget(changes);
        forget(removals);
    }


    // ---- part 2, inductive form: two ARBITRARY invariant-satisfying replicas whose stamps all lie
    //      within one forgiveness period and are distinct unless they denote the same operation;
    //      A applies A.diff(B) (both batch orders) and must have nothing left to fetch.
    fn in_window(t: HLCTimestamp, base: u64) -> bool {
        t.seconds() >= base && t.seconds() < base + WINDOW
    }

    fn all_in_window<const N: usize>(set: &OrSWotSet<N>, base: u64) -> bool {
        let mut k = 0;
        while k < KEYS {
            match view_of(set, k as Key) {
                View::Live(t) | View::Dead(t) => {
                    if !in_window(t, base) {
                        return false;
                    }
                },
                View::Nothing => {},
            }
            k += 1;
        }
        let mut n = 0;
        while n < NODES {
            let mut s = 0;
            while s < N {
                if let Some(t) = set.versions.nodes_max_stamps[s].get(&(n as u8)).copied() {
                    if !in_window(t, base) {
                        return false;
                    }
                }
                s += 1;
            }
            n += 1;
        }
        true
    }

    /// stamps are pairwise distinct unless they denote the same operation (same key, same kind)
    fn distinct_ops<const N: usize>(a: &OrSWotSet<N>, b: &OrSWotSet<N>) -> bool {
        let mut i = 0;
        while i < KEYS {
            let va = view_of(a, i as Key);
            let vb_same = view_of(b, i as Key);
            let mut j = 0;
            while j < KEYS {
                let va2 = view_of(a, j as Key);
                let vb = view_of(b, j as Key);
                let (ta, da) = match va { View::Live(t) => (Some(t), false), View::Dead(t) => (Some(t), true), View::Nothing => (None, false) };
                let (tb, db) = match vb { View::Live(t) => (Some(t), false), View::Dead(t) => (Some(t), true), View::Nothing => (None, false) };
                let (ta2, _) = match va2 { View::Live(t) => (Some(t), false), View::Dead(t) => (Some(t), true), View::Nothing => (None, false) };
                let (tbs, _) = match vb_same { View::Live(t) => (Some(t), false), View::Dead(t) => (Some(t), true), View::Nothing => (None, false) };
                if ta.is_some() && ta == tb && !(i == j && da == db) {
                    return false;
                }
                if i != j && ta.is_some() && ta == ta2 {
                    return false;
                }
                if i != j && tbs.is_some() && tbs == tb {
                    return false;
                }
                j += 1;
            }
            i += 1;
        }
        true
    }


    // ---- part 2, one repair item (quick tier): applying ANY single item of A.diff(B) — gated by
    //      will_apply, on the read-repair source — removes exactly that item from the difference
    //      and changes no other key; invariant and window condition are preserved, so by induction
    //      any split/order of the two batches empties the difference.
    #[kani::proof]
    #[kani::unwind(@@UNWIND@@)]
    fn c05_repair_one_item_n2() {
        let base: u32 = kani::any();
        kani::assume(base < u32::MAX - 3600);
        let mut a = any_state::<2>();
        let b = any_state::<2>();
        kani::assume(all_in_window(&a, base as u64) && all_in_window(&b, base as u64));
        kani::assume(distinct_ops(&a, &b));
        let (c0, r0) = a.diff(&b);
        let from_removals: bool = kani::any();
        let idx: usize = kani::any();
        kani::assume(idx < KEYS);
        kani::assume(if from_removals { idx < r0.len() } else { idx < c0.len() });
        let (key, ts) = if from_removals { r0[idx] } else { c0[idx] };
        let mut before = [View::Nothing; KEYS];
        let mut k = 0;
        while k < KEYS {
            before[k] = view_of(&a, k as Key);
            k += 1;
        }
        assert!(a.will_apply(key, ts), "an item of the difference passes the will_apply gate of the repair path");
        let ret = if from_removals { a.delete_with_source(REPAIR_SOURCE, key, ts) } else { a.insert_with_source(REPAIR_SOURCE, key, ts) };
        assert!(ret, "...and is applied");
        let (c1, r1) = a.diff(&b);
        assert!(mentions(&c1, key) == 0 && mentions(&r1, key) == 0, "the repaired key is no longer lacking");
        assert!(c1.len() + r1.len() + 1 == c0.len() + r0.len(), "exactly one item left the difference");
        let mut k = 0;
        while k < KEYS {
            let kk = k as Key;
            if kk == key {
                assert!(view_of(&a, kk) == view_of(&b, kk), "the repaired key shows what the peer shows");
            } else {
                assert!(view_of(&a, kk) == before[k], "other keys are untouched");
            }
            k += 1;
        }
        assert!(inv(&a) && all_in_window(&a, base as u64) && distinct_ops(&a, &b), "invariant and window condition are preserved");
        kani::cover!(from_removals, "a removal applied");
        kani::cover!(!from_removals, "a modification applied");
        forget(a);
        forget(b);
    }

    #[kani::proof]
    #[kani::unwind(@@UNWIND@@)]
    fn c05_repair_step_n2() {
        let base: u32 = kani::any();
        kani::assume(base < u32::MAX - 3600);
        let mut a = any_state::<2>();
        let b = any_state::<2>();
        kani::assume(all_in_window(&a, base as u64) && all_in_window(&b, base as u64));
        kani::assume(distinct_ops(&a, &b));
        let (c0, r0) = a.diff(&b);
        let todo = c0.len() + r0.len();
        forget(c0);
        forget(r0);
        let order: bool = kani::any();
        repair(&mut a, &b, order);
        let (c1, r1) = a.diff(&b);
        assert!(c1.len() == 0 && r1.len() == 0, "after applying the difference nothing is left to fetch from that peer");
        // and what A now shows for every key is the newer of what it showed and what the peer shows
        let mut k = 0;
        while k < KEYS {
            let key = k as Key;
            match (view_of(&a, key), view_of(&b, key)) {
                (View::Live(ta), View::Live(tb)) | (View::Dead(ta), View::Dead(tb)) | (View::Live(ta), View::Dead(tb)) | (View::Dead(ta), View::Live(tb)) => {
                    assert!(ta >= tb, "the repaired replica is at least as new as the peer on every key the peer holds")
                },
                (View::Nothing, View::Live(_)) | (View::Nothing, View::Dead(_)) => assert!(false, "a key the peer holds within the window is never left missing"),
                _ => {},
            }
            k += 1;
        }
        assert!(inv(&a));
        kani::cover!(todo >= 2, "at least two items repaired");
        kani::cover!(todo == 0, "nothing to repair");
        forget(a);
        forget(b);
    }

    fn exchange_repairs<const P: usize>() {
        let base: u32 = kani::any();
        kani::assume(base < u32::MAX - 3600);
        let mut pool = [Op { is_delete: false, key: 0, ts: HLCTimestamp::from_u64(0) }; P];
        let mut i = 0;
        while i < P {
            let ts = any_ts();
            kani::assume(ts.seconds() >= base as u64 && ts.seconds() < base as u64 + WINDOW);
            let mut j = 0;
            while j < i {
                kani::assume(pool[j].ts != ts);
                j += 1;
            }
            pool[i] = Op { is_delete: kani::any(), key: any_key(), ts };
            i += 1;
        }
        let mut a = OrSWotSet::<2>::default();
        let mut b = OrSWotSet::<2>::default();
        // each replica applies an arbitrary subset in an arbitrary order (P picks, repeats are no-ops)
        let mut step = 0;
        while step < P {
            let ia: usize = kani::any();
            let ib: usize = kani::any();
            kani::assume(ia <= P && ib <= P);
            let mut i = 0;
            while i < P {
                if i == ia {
                    if pool[i].is_delete { a.delete_with_source(0, pool[i].key, pool[i].ts); } else { a.insert_with_source(0, pool[i].key, pool[i].ts); }
                }
                if i == ib {
                    if pool[i].is_delete { b.delete_with_source(0, pool[i].key, pool[i].ts); } else { b.insert_with_source(0, pool[i].key, pool[i].ts); }
                }
                i += 1;
            }
            step += 1;
        }
        let order: bool = kani::any();
        repair(&mut a, &b, order);
        let (c1, r1) = a.diff(&b);
        assert!(c1.len() == 0 && r1.len() == 0, "after applying the difference nothing is left to fetch from that peer");
        let order2: bool = kani::any();
        repair(&mut b, &a, order2);
        let (c2, r2) = b.diff(&a);
        assert!(c2.len() == 0 && r2.len() == 0, "after applying the difference nothing is left to fetch from that peer");
        let mut k = 0;
        let mut live = 0;
        while k < KEYS {
            let key = k as Key;
            assert!(a.get(&key).copied() == b.get(&key).copied(), "both replicas expose identical live ids and stamps after one exchange each");
            if a.get(&key).is_some() {
                live += 1;
            }
            k += 1;
        }
        kani::cover!(live >= 1, "a key is live after the exchange");
        forget(a);
        forget(b);
    }

    #[kani::proof]
    #[kani::unwind(@@UNWIND@@)]
    fn c05_exchange_repairs_p2() {
        exchange_repairs::<2>();
    }

    #[kani::proof]
    #[kani::unwind(@@UNWIND@@)]
    fn c05_exchange_repairs_p3() {
        exchange_repairs::<3>();
    }
    // @@PLAYBACK@@
}

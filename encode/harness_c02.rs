// C02 — on each node the replicated set and the persisted store never disagree.
// Appended to a verbatim copy of datacake-eventual-consistency/src/keyspace/actor.rs; the
// handlers are private async methods of KeyspaceActor and are called directly.
#[cfg(kani)]
mod verif_c02 {
    use std::cell::UnsafeCell;
    use std::future::Future;
    use std::marker::PhantomData;
    use std::pin::Pin;
    use std::task::{Context, Poll, RawWaker, RawWakerVTable, Waker};

    use datacake_crdt::verif_api::{any_key, any_state2, any_ts, inv2, view2, KEYS};
    use datacake_crdt::Key;

    use super::*;
    use crate::core::DocumentMetadata;
    use crate::{Document, PutContext};

    // ---- a no-op waker and a one-poll executor: every await in the handlers is immediately ready
    fn noop_raw() -> RawWaker {
        fn clone(_: *const ()) -> RawWaker {
            noop_raw()
        }
        fn noop(_: *const ()) {}
        static VT: RawWakerVTable = RawWakerVTable::new(clone, noop, noop, noop);
        RawWaker::new(std::ptr::null(), &VT)
    }

    fn run<F: Future>(f: F) -> F::Output {
        let waker = unsafe { Waker::from_raw(noop_raw()) };
        let mut cx = Context::from_waker(&waker);
        let mut f = Box::pin(f);
        match f.as_mut().poll(&mut cx) {
            Poll::Ready(v) => v,
            Poll::Pending => panic!("handler did not complete in one poll"),
        }
    }

    // ---- storage model: one row per key (stamp, is_tombstone); every call may fail; bulk calls
    //      may fail after an arbitrary prefix and report exactly the ids they wrote
    #[derive(Debug)]
    pub struct StoreErr;
    impl std::fmt::Display for StoreErr {
        fn fmt(&self, _f: &mut std::fmt::Formatter<'_>) -> std::fmt::Result {
            Ok(())
        }
    }
    impl std::error::Error for StoreErr {}

    pub struct ModelStore {
        rows: UnsafeCell<[Option<(u64, bool)>; KEYS]>,
        calls: UnsafeCell<u64>,
    }
    unsafe impl Sync for ModelStore {}
    unsafe impl Send for ModelStore {}

    impl ModelStore {
        fn rows(&self) -> &mut [Option<(u64, bool)>; KEYS] {
            unsafe { &mut *self.rows.get() }
        }
        fn write(&self, key: Key, row: Option<(u64, bool)>) {
            let rows = self.rows();
            let mut j = 0;
            while j < KEYS {
                if j as Key == key {
                    rows[j] = row;
                }
                j += 1;
            }
        }
        fn read(&self, key: Key) -> Option<(u64, bool)> {
            let rows = self.rows();
            let mut j = 0;
            while j < KEYS {
                if j as Key == key {
                    return rows[j];
                }
                j += 1;
            }
            None
        }
        fn do_put(&self, document: Document) -> Result<(), StoreErr> {
            self.called();
            let (id, ts) = (document.id(), document.last_updated().as_u64());
            // the payload Arc is leaked on purpose: its drop glue costs minutes of symbolic execution
            std::mem::forget(document);
            if kani::any() {
                return Err(StoreErr);
            }
            self.write(id, Some((ts, false)));
            Ok(())
        }

        fn do_multi_put(&self, documents: impl Iterator<Item = Document>) -> Result<(), BulkMutationError<StoreErr>> {
            self.called();
            let mut done = [0 as Key; 2];
            let mut n = 0usize;
            let mut failed = false;
            for doc in documents {
                let (id, ts) = (doc.id(), doc.last_updated().as_u64());
                std::mem::forget(doc);
                if failed {
                    continue;
                }
                if kani::any() {
                    failed = true;
                    continue;
                }
                self.write(id, Some((ts, false)));
                if n < 2 {
                    done[n] = id;
                }
                n += 1;
            }
            if failed || kani::any() {
                kani::assume(n <= 2);
                return Err(BulkMutationError::new(StoreErr, ids_vec(n, done[0], done[1])));
            }
            Ok(())
        }

        fn do_remove_tombstones(&self, keys: impl Iterator<Item = Key>) -> Result<(), BulkMutationError<StoreErr>> {
            self.called();
            let mut done = [0 as Key; 2];
            let mut n = 0usize;
            let mut failed = false;
            for key in keys {
                if failed {
                    continue;
                }
                if kani::any() {
                    failed = true;
                    continue;
                }
                self.write(key, None);
                if n < 2 {
                    done[n] = key;
                }
                n += 1;
            }
            if failed || kani::any() {
                kani::assume(n <= 2);
                return Err(BulkMutationError::new(StoreErr, ids_vec(n, done[0], done[1])));
            }
            Ok(())
        }

        fn do_mark_as_tombstone(&self, doc_id: Key, timestamp: HLCTimestamp) -> Result<(), StoreErr> {
            self.called();
            if kani::any() {
                return Err(StoreErr);
            }
            self.write(doc_id, Some((timestamp.as_u64(), true)));
            Ok(())
        }

        fn do_mark_many_as_tombstone(&self, documents: impl Iterator<Item = DocumentMetadata>) -> Result<(), BulkMutationError<StoreErr>> {
            self.called();
            let mut done = [0 as Key; 2];
            let mut n = 0usize;
            let mut failed = false;
            for doc in documents {
                if failed {
                    continue;
                }
                if kani::any() {
                    failed = true;
                    continue;
                }
                self.write(doc.id, Some((doc.last_updated.as_u64(), true)));
                if n < 2 {
                    done[n] = doc.id;
                }
                n += 1;
            }
            if failed || kani::any() {
                kani::assume(n <= 2);
                return Err(BulkMutationError::new(StoreErr, ids_vec(n, done[0], done[1])));
            }
            Ok(())
        }

        fn called(&self) {
            unsafe { *self.calls.get() += 1 }
        }
        fn calls(&self) -> u64 {
            unsafe { *self.calls.get() - CALLS_BASE }
        }
    }
    // unique magic initial value (Kani aliases equal-valued statics/constants)
    const CALLS_BASE: u64 = 0xA5A5_3001_5EED_3001;

    fn ids_vec(n: usize, a: Key, b: Key) -> datacake_crdt::verif_api::IdVec {
        // the contract says WHICH ids were written, not in which order they are reported: arbitrary order
        let mut v = datacake_crdt::verif_api::IdVec::new();
        if n >= 2 && kani::any() {
            v.push(b);
            v.push(a);
            return v;
        }
        if n >= 1 {
            v.push(a);
        }
        if n >= 2 {
            v.push(b);
        }
        v
    }

    #[async_trait::async_trait]
    impl Storage for ModelStore {
        type Error = StoreErr;
        type DocsIter = std::iter::Empty<Document>;
        type MetadataIter = std::iter::Empty<(Key, HLCTimestamp, bool)>;

        async fn get_keyspace_list(&self) -> Result<std::vec::Vec<String>, Self::Error> {
            Ok(std::vec::Vec::new())
        }

        async fn iter_metadata(&self, _keyspace: &str) -> Result<Self::MetadataIter, Self::Error> {
            Ok(std::iter::empty())
        }

        // NOTE 1: the mutating methods are written in async_trait's desugared form and do their work EAGERLY, returning an
        // already-completed future: the handlers await every storage call at once, so nothing can happen in between, and the
        // boxed future then holds only the result - not the document (an Arc pointer) or the caller's iterator with its
        // closures, whose byte-level encoding inside a heap-allocated future cost a factor of six in formula size.
        // NOTE 2: the *_with_ctx methods do the work themselves: the trait's default bodies await a second boxed future
        // of the same dyn type, whose drop glue Kani unwinds recursively (no result).
        fn remove_tombstones<'life0, 'life1, 'async_trait>(
            &'life0 self,
            _keyspace: &'life1 str,
            keys: impl Iterator<Item = Key> + Send + 'async_trait,
        ) -> Pin<Box<dyn Future<Output = Result<(), BulkMutationError<Self::Error>>> + Send + 'async_trait>>
        where
            'life0: 'async_trait,
            'life1: 'async_trait,
            Self: 'async_trait,
        {
            Box::pin(std::future::ready(self.do_remove_tombstones(keys)))
        }

        fn put_with_ctx<'life0, 'life1, 'life2, 'async_trait>(
            &'life0 self,
            _keyspace: &'life1 str,
            document: Document,
            _ctx: Option<&'life2 PutContext>,
        ) -> Pin<Box<dyn Future<Output = Result<(), Self::Error>> + Send + 'async_trait>>
        where
            'life0: 'async_trait,
            'life1: 'async_trait,
            'life2: 'async_trait,
            Self: 'async_trait,
        {
            Box::pin(std::future::ready(self.do_put(document)))
        }

        fn put<'life0, 'life1, 'async_trait>(
            &'life0 self,
            _keyspace: &'life1 str,
            document: Document,
        ) -> Pin<Box<dyn Future<Output = Result<(), Self::Error>> + Send + 'async_trait>>
        where
            'life0: 'async_trait,
            'life1: 'async_trait,
            Self: 'async_trait,
        {
            Box::pin(std::future::ready(self.do_put(document)))
        }

        fn multi_put_with_ctx<'life0, 'life1, 'life2, 'async_trait>(
            &'life0 self,
            _keyspace: &'life1 str,
            documents: impl Iterator<Item = Document> + Send + 'async_trait,
            _ctx: Option<&'life2 PutContext>,
        ) -> Pin<Box<dyn Future<Output = Result<(), BulkMutationError<Self::Error>>> + Send + 'async_trait>>
        where
            'life0: 'async_trait,
            'life1: 'async_trait,
            'life2: 'async_trait,
            Self: 'async_trait,
        {
            Box::pin(std::future::ready(self.do_multi_put(documents)))
        }

        fn multi_put<'life0, 'life1, 'async_trait>(
            &'life0 self,
            _keyspace: &'life1 str,
            documents: impl Iterator<Item = Document> + Send + 'async_trait,
        ) -> Pin<Box<dyn Future<Output = Result<(), BulkMutationError<Self::Error>>> + Send + 'async_trait>>
        where
            'life0: 'async_trait,
            'life1: 'async_trait,
            Self: 'async_trait,
        {
            Box::pin(std::future::ready(self.do_multi_put(documents)))
        }

        fn mark_as_tombstone<'life0, 'life1, 'async_trait>(
            &'life0 self,
            _keyspace: &'life1 str,
            doc_id: Key,
            timestamp: HLCTimestamp,
        ) -> Pin<Box<dyn Future<Output = Result<(), Self::Error>> + Send + 'async_trait>>
        where
            'life0: 'async_trait,
            'life1: 'async_trait,
            Self: 'async_trait,
        {
            Box::pin(std::future::ready(self.do_mark_as_tombstone(doc_id, timestamp)))
        }

        fn mark_many_as_tombstone<'life0, 'life1, 'async_trait>(
            &'life0 self,
            _keyspace: &'life1 str,
            documents: impl Iterator<Item = DocumentMetadata> + Send + 'async_trait,
        ) -> Pin<Box<dyn Future<Output = Result<(), BulkMutationError<Self::Error>>> + Send + 'async_trait>>
        where
            'life0: 'async_trait,
            'life1: 'async_trait,
            Self: 'async_trait,
        {
            Box::pin(std::future::ready(self.do_mark_many_as_tombstone(documents)))
        }

        async fn get(&self, _keyspace: &str, _doc_id: Key) -> Result<Option<Document>, Self::Error> {
            Ok(None)
        }

        async fn multi_get(&self, _keyspace: &str, _doc_ids: impl Iterator<Item = Key> + Send) -> Result<Self::DocsIter, Self::Error> {
            Ok(std::iter::empty())
        }
    }

    // ---- an arbitrary node state in which set and store agree
    fn agreeing_actor() -> KeyspaceActor<ModelStore> {
        let state = any_state2();
        let store = ModelStore { rows: UnsafeCell::new([None; KEYS]), calls: UnsafeCell::new(CALLS_BASE) };
        let mut k = 0;
        while k < KEYS {
            let (kind, ts) = view2(&state, k as Key);
            if kind == 1 {
                store.write(k as Key, Some((ts, false)));
            } else if kind == 2 {
                store.write(k as Key, Some((ts, true)));
            }
            k += 1;
        }
        let clock = Clock::new(0);
        KeyspaceActor {
            name: Cow::Borrowed("ks"),
            clock,
            storage: Arc::new(store),
            state,
            change_timestamp: Arc::new(AtomicCell::new(HLCTimestamp::from_u64(0x0000_0E10_0000_0100))),
        }
    }

    /// live at t in the set <=> stored document at t; tombstone at t <=> stored tombstone at t
    fn agree(actor: &KeyspaceActor<ModelStore>) -> bool {
        let mut k = 0;
        while k < KEYS {
            let (kind, ts) = view2(&actor.state, k as Key);
            let row = actor.storage.read(k as Key);
            let ok = match (kind, row) {
                (0, None) => true,
                (1, Some((t, false))) => t == ts,
                (2, Some((t, true))) => t == ts,
                _ => false,
            };
            if !ok {
                return false;
            }
            k += 1;
        }
        true
    }

    fn snapshot(actor: &KeyspaceActor<ModelStore>) -> [((u8, u64), Option<(u64, bool)>); KEYS] {
        let mut out = [((0u8, 0u64), None); KEYS];
        let mut k = 0;
        while k < KEYS {
            out[k] = (view2(&actor.state, k as Key), actor.storage.read(k as Key));
            k += 1;
        }
        out
    }

    /// A document whose payload has a second owner that is leaked: wherever the handler (or an iterator adapter)
    /// drops the document, the reference count goes 2 -> 1 and the payload's deallocation path stays out of the
    /// formula (the payload is not the subject: the handlers never look at it).
    fn shared_doc(key: Key, ts: HLCTimestamp) -> Document {
        let d = Document::new(key, ts, std::vec::Vec::new());
        std::mem::forget(d.clone());
        d
    }

    fn same_at(actor: &KeyspaceActor<ModelStore>, before: &[((u8, u64), Option<(u64, bool)>); KEYS], key: Key) -> bool {
        let now = snapshot(actor);
        let mut k = 0;
        while k < KEYS {
            if k as Key == key && now[k] != before[k] {
                return false;
            }
            k += 1;
        }
        true
    }

    fn any_source() -> usize {
        if kani::any() {
            1
        } else {
            0
        }
    }

    fn leak(actor: KeyspaceActor<ModelStore>) {
        std::mem::forget(actor);
    }

    // ---- single put
    #[kani::proof]
    #[kani::unwind(@@UNWIND@@)]
    fn c02_on_set_step() {
        let mut actor = agreeing_actor();
        let before = snapshot(&actor);
        let key = any_key();
        let ts = any_ts();
        let admitted = actor.state.will_apply(key, ts);
        let msg = Set { source: any_source(), doc: shared_doc(key, ts), ctx: None, _marker: PhantomData };
        let res = run(actor.on_set(msg));
        if res.is_ok() {
            let applied = view2(&actor.state, key) == (1, ts.as_u64());
            if admitted {
                assert!(applied, "a completed put is visible on the node when the set admits it (newer than what is held, not below the cut-off)");
            } else {
                assert!(same_at(&actor, &before, key), "a request the set does not admit changes neither side");
            }
        }
        assert!(agree(&actor), "after a put request (successful or failed) set and store describe the same thing");
        assert!(inv2(&actor.state));
        let after = snapshot(&actor);
        if res.is_err() {
            let mut k = 0;
            while k < KEYS {
                assert!(after[k] == before[k], "a failed put is applied to neither side");
                k += 1;
            }
        }
        let mut k = 0;
        while k < KEYS {
            if k as Key != key {
                assert!(after[k] == before[k], "other documents are untouched");
            }
            k += 1;
        }
        assert!(actor.storage.calls() <= 1);
        kani::cover!(res.is_ok() && actor.storage.calls() == 1 && view2(&actor.state, key) == (1, ts.as_u64()), "put applied to both");
        kani::cover!(res.is_err(), "storage failed");
        kani::cover!(res.is_ok() && actor.storage.calls() == 0, "put skipped: something newer is held");
        leak(actor);
    }

    // ---- single delete
    #[kani::proof]
    #[kani::unwind(@@UNWIND@@)]
    fn c02_on_del_step() {
        let mut actor = agreeing_actor();
        let before = snapshot(&actor);
        let key = any_key();
        let ts = any_ts();
        let admitted = actor.state.will_apply(key, ts);
        let msg = Del { source: any_source(), doc: DocumentMetadata::new(key, ts), _marker: PhantomData };
        let res = run(actor.on_del(msg));
        if res.is_ok() {
            let applied = view2(&actor.state, key) == (2, ts.as_u64());
            if admitted {
                assert!(applied, "a completed delete is visible on the node when the set admits it");
            } else {
                assert!(same_at(&actor, &before, key), "a request the set does not admit changes neither side");
            }
        }
        assert!(agree(&actor), "after a delete request (successful or failed) set and store describe the same thing");
        assert!(inv2(&actor.state));
        let after = snapshot(&actor);
        if res.is_err() {
            let mut k = 0;
            while k < KEYS {
                assert!(after[k] == before[k], "a failed delete is applied to neither side");
                k += 1;
            }
        }
        let mut k = 0;
        while k < KEYS {
            if k as Key != key {
                assert!(after[k] == before[k], "other documents are untouched");
            }
            k += 1;
        }
        kani::cover!(res.is_ok() && actor.storage.calls() == 1 && view2(&actor.state, key) == (2, ts.as_u64()), "delete applied to both");
        kani::cover!(res.is_err(), "storage failed");
        leak(actor);
    }

    // ---- bulk put of two documents with distinct ids: whatever the store reports as written (all,
    //      a prefix, nothing) is exactly what becomes visible in the set
    #[kani::proof]
    #[kani::unwind(@@UNWIND_BULK@@)]
    fn c02_on_multi_set_step() {
        let mut actor = agreeing_actor();
        let before = snapshot(&actor);
        let (k1, k2) = (any_key(), any_key());
        kani::assume(k1 != k2);
        let (t1, t2) = (any_ts(), any_ts());
        let mut docs = crate::core::DocVec::<Document>::new();
        docs.push(shared_doc(k1, t1));
        docs.push(shared_doc(k2, t2));
        let msg = MultiSet { source: any_source(), docs, ctx: None, _marker: PhantomData };
        let res = run(actor.on_multi_set(msg));
        assert!(agree(&actor), "after a bulk put (complete, partial or failed) set and store describe the same thing");
        assert!(inv2(&actor.state));
        let after = snapshot(&actor);
        let mut k = 0;
        while k < KEYS {
            if k as Key != k1 && k as Key != k2 {
                assert!(after[k] == before[k], "other documents are untouched");
            }
            k += 1;
        }
        if let Err(e) = &res {
            // exactly the reported ids may have changed
            let mut k = 0;
            while k < KEYS {
                let reported = e.successful_doc_ids().contains(&(k as Key));
                if !reported {
                    assert!(after[k] == before[k], "a document the store did not report as written is applied to neither side");
                }
                k += 1;
            }
            kani::cover!(e.successful_doc_ids().len() == 1, "partial bulk failure: one of two written");
        }
        kani::cover!(res.is_ok() && view2(&actor.state, k1) == (1, t1.as_u64()) && view2(&actor.state, k2) == (1, t2.as_u64()), "both applied");
        std::mem::forget(res);
        leak(actor);
    }

    // ---- bulk delete of two documents with distinct ids
    #[kani::proof]
    #[kani::unwind(@@UNWIND_BULK@@)]
    fn c02_on_multi_del_step() {
        let mut actor = agreeing_actor();
        let before = snapshot(&actor);
        let (k1, k2) = (any_key(), any_key());
        kani::assume(k1 != k2);
        let (t1, t2) = (any_ts(), any_ts());
        let mut docs = crate::core::DocVec::<DocumentMetadata>::new();
        docs.push(DocumentMetadata::new(k1, t1));
        docs.push(DocumentMetadata::new(k2, t2));
        let msg = MultiDel { source: any_source(), docs, _marker: PhantomData };
        let res = run(actor.on_multi_del(msg));
        assert!(agree(&actor), "after a bulk delete (complete, partial or failed) set and store describe the same thing");
        assert!(inv2(&actor.state));
        let after = snapshot(&actor);
        let mut k = 0;
        while k < KEYS {
            if k as Key != k1 && k as Key != k2 {
                assert!(after[k] == before[k], "other documents are untouched");
            }
            k += 1;
        }
        if let Err(e) = &res {
            let mut k = 0;
            while k < KEYS {
                let reported = e.successful_doc_ids().contains(&(k as Key));
                if !reported {
                    assert!(after[k] == before[k], "a document the store did not report as tombstoned is applied to neither side");
                }
                k += 1;
            }
            kani::cover!(e.successful_doc_ids().len() == 1, "partial bulk failure: one of two tombstoned");
        }
        kani::cover!(res.is_ok() && view2(&actor.state, k1) == (2, t1.as_u64()) && view2(&actor.state, k2) == (2, t2.as_u64()), "both applied");
        std::mem::forget(res);
        leak(actor);
    }

    // ---- purge: tombstones removed from storage disappear from the set, those whose removal failed are kept
    #[kani::proof]
    #[kani::unwind(@@UNWIND@@)]
    fn c02_on_purge_step() {
        let mut actor = agreeing_actor();
        let before = snapshot(&actor);
        // which tombstones are below their origin's purge cut-off before the request
        let mut purgeable = [false; KEYS];
        let mut k = 0;
        while k < KEYS {
            let (kind, t) = before[k].0;
            if kind == 2 {
                if let Some(c) = datacake_crdt::verif_api::cutoff2(&actor.state, (t & 0xFF) as u8) {
                    purgeable[k] = t < c.as_u64();
                }
            }
            k += 1;
        }
        let res = run(actor.on_purge_tombstones(PurgeDeletes(PhantomData)));
        assert!(agree(&actor), "after a purge (complete, partial or failed) set and store describe the same thing");
        assert!(inv2(&actor.state));
        let after = snapshot(&actor);
        let mut purged = 0;
        let mut k = 0;
        while k < KEYS {
            match (before[k].0 .0, after[k].0 .0) {
                (2, 0) => {
                    assert!(purgeable[k], "only tombstones below their origin's cut-off are purged");
                    purged += 1
                },
                _ => {
                    assert!(after[k] == before[k], "a purge only ever removes tombstones, on both sides");
                    if res.is_ok() {
                        assert!(!purgeable[k], "a completed purge leaves no tombstone below its origin's cut-off behind");
                    }
                },
            }
            k += 1;
        }
        kani::cover!(purged >= 1 && res.is_ok(), "a tombstone was purged from set and store");
        kani::cover!(res.is_err(), "storage failed during the purge");
        std::mem::forget(res);
        leak(actor);
    }

    // ---- bulk requests carrying a single document (the 2-document forms above exceed the solver's
    //      memory; see DESIGN.md): same filter / storage / partial-failure / apply path
    #[kani::proof]
    #[kani::unwind(@@UNWIND_BULK@@)]
    fn c02_on_multi_del1_step() {
        let mut actor = agreeing_actor();
        let before = snapshot(&actor);
        let k1 = any_key();
        let t1 = any_ts();
        let mut docs = crate::core::DocVec::<DocumentMetadata>::new();
        docs.push(DocumentMetadata::new(k1, t1));
        let admitted = actor.state.will_apply(k1, t1);
        let msg = MultiDel { source: any_source(), docs, _marker: PhantomData };
        let res = run(actor.on_multi_del(msg));
        if res.is_ok() {
            let applied = view2(&actor.state, k1) == (2, t1.as_u64());
            if admitted {
                assert!(applied, "a completed bulk delete makes the removal visible when the set admits it (repair: nothing left to fetch)");
            } else {
                assert!(same_at(&actor, &before, k1), "a request the set does not admit changes neither side");
            }
        }
        assert!(agree(&actor), "after a bulk delete (complete or failed) set and store describe the same thing");
        assert!(inv2(&actor.state));
        let after = snapshot(&actor);
        let mut k = 0;
        while k < KEYS {
            if k as Key != k1 {
                assert!(after[k] == before[k], "other documents are untouched");
            } else if let Err(e) = &res {
                if e.successful_doc_ids().len() == 0 {
                    assert!(after[k] == before[k], "a document the store did not report as tombstoned is applied to neither side");
                }
            }
            k += 1;
        }
        kani::cover!(res.is_ok() && view2(&actor.state, k1) == (2, t1.as_u64()), "applied");
        kani::cover!(res.is_err(), "storage failed");
        std::mem::forget(res);
        leak(actor);
    }

    #[kani::proof]
    #[kani::unwind(@@UNWIND_BULK@@)]
    fn c02_on_multi_set1_step() {
        let mut actor = agreeing_actor();
        let before = snapshot(&actor);
        let k1 = any_key();
        let t1 = any_ts();
        let mut docs = crate::core::DocVec::<Document>::new();
        docs.push(shared_doc(k1, t1));
        let admitted = actor.state.will_apply(k1, t1);
        let msg = MultiSet { source: any_source(), docs, ctx: None, _marker: PhantomData };
        let res = run(actor.on_multi_set(msg));
        if res.is_ok() {
            let applied = view2(&actor.state, k1) == (1, t1.as_u64());
            if admitted {
                assert!(applied, "a completed bulk put makes the document visible when the set admits it (repair: nothing left to fetch)");
            } else {
                assert!(same_at(&actor, &before, k1), "a request the set does not admit changes neither side");
            }
        }
        assert!(agree(&actor), "after a bulk put (complete or failed) set and store describe the same thing");
        assert!(inv2(&actor.state));
        let after = snapshot(&actor);
        let mut k = 0;
        while k < KEYS {
            if k as Key != k1 {
                assert!(after[k] == before[k], "other documents are untouched");
            } else if let Err(e) = &res {
                if e.successful_doc_ids().len() == 0 {
                    assert!(after[k] == before[k], "a document the store did not report as written is applied to neither side");
                }
            }
            k += 1;
        }
        kani::cover!(res.is_ok() && view2(&actor.state, k1) == (1, t1.as_u64()), "applied");
        kani::cover!(res.is_err(), "storage failed");
        std::mem::forget(res);
        leak(actor);
    }
    // @@PLAYBACK@@
}

// C08 — purging tombstones is invisible and deletes stay deleted (single-replica facts + differential).
#[cfg(kani)]
mod verif_c08 {
    use super::verif_support::*;
    use super::*;

    fn cutoff_of<const N: usize>(set: &OrSWotSet<N>, node: u8) -> Option<HLCTimestamp> {
        spec_cutoff(&max_of(set, node), node)
    }

    fn below_cutoff<const N: usize>(set: &OrSWotSet<N>, t: HLCTimestamp) -> bool {
        match cutoff_of(set, t.node()) {
            Some(c) => t < c,
            None => false,
        }
    }

    // ---- inductive step: purge from an arbitrary invariant state
    fn purge_step<const N: usize>() {
        let mut set = any_state::<N>();
        let mut before = [View::Nothing; KEYS];
        let mut k = 0;
        while k < KEYS {
            before[k] = view_of(&set, k as Key);
            k += 1;
        }

        let purged = set.purge_old_deletes();

        // (a) which ids are live, and their stamps, is unchanged
        // (b) exactly the tombstones below their origin's cut-off are gone and are reported, once, with their stamp
        let mut expected = 0usize;
        let mut k = 0;
        while k < KEYS {
            let key = k as Key;
            let after = view_of(&set, key);
            match before[k] {
                View::Live(_) | View::Nothing => assert!(after == before[k], "purging never changes live ids or creates anything"),
                View::Dead(t) => {
                    if below_cutoff(&set, t) {
                        assert!(after == View::Nothing, "a tombstone below the cut-off is purged");
                        expected += 1;
                        let mut hits = 0;
                        let mut i = 0;
                        while i < KEYS {
                            if i < purged.len() && purged[i] == (key, t) {
                                hits += 1;
                            }
                            i += 1;
                        }
                        assert!(hits == 1, "a purged tombstone is reported exactly once with its stamp");
                    } else {
                        assert!(after == before[k], "a tombstone not below the cut-off stays");
                    }
                },
            }
            k += 1;
        }
        assert!(purged.len() == expected, "only purged tombstones are reported");

        // (c) deletes stay deleted: anything from the deleting node that is not newer than a purged
        //     delete is still refused and changes nothing
        if purged.len() > 0 {
            let i: usize = kani::any();
            kani::assume(i < purged.len() && i < KEYS);
            let (_, gone) = purged[i];
            let ts = any_ts_of(gone.node());
            kani::assume(ts <= gone);
            let key = any_key();
            let source = any_source::<N>();
            let is_delete: bool = kani::any();
            let mut mid = [View::Nothing; KEYS];
            let mut k = 0;
            while k < KEYS {
                mid[k] = view_of(&set, k as Key);
                k += 1;
            }
            assert!(!set.will_apply(key, ts), "an operation not newer than a purged delete is predicted not to apply");
            let ret = if is_delete { set.delete_with_source(source, key, ts) } else { set.insert_with_source(source, key, ts) };
            assert!(!ret, "an operation not newer than a purged delete is refused");
            let mut k = 0;
            while k < KEYS {
                assert!(view_of(&set, k as Key) == mid[k], "...and changes nothing");
                k += 1;
            }
            kani::cover!(!is_delete && key == purged[i].0, "re-insert of the purged id at an old stamp is refused");
        }
        assert!(inv(&set), "invariant preserved");
        kani::cover!(purged.len() >= 1, "something was purged");
        kani::cover!(purged.len() == 0, "nothing purgeable");
        forget(set);
        forget(purged);
    }

    #[kani::proof]
    #[kani::unwind(@@UNWIND@@)]
    fn c08_purge_step_n2() {
        purge_step::<2>();
    }

    #[kani::proof]
    #[kani::unwind(@@UNWIND@@)]
    fn c08_purge_step_n1() {
        purge_step::<1>();
    }

    // ---- purge followed by re-adding the reported tombstones restores every view
    #[kani::proof]
    #[kani::unwind(@@UNWIND@@)]
    fn c08_readd_restores_n2() {
        let mut set = any_state::<2>();
        let mut before = [View::Nothing; KEYS];
        let mut k = 0;
        while k < KEYS {
            before[k] = view_of(&set, k as Key);
            k += 1;
        }
        let purged = set.purge_old_deletes();
        let n = purged.len();
        set.add_raw_tombstones(purged);
        let mut k = 0;
        while k < KEYS {
            assert!(view_of(&set, k as Key) == before[k], "re-adding the reported tombstones undoes the purge");
            k += 1;
        }
        assert!(inv(&set));
        kani::cover!(n >= 1, "something was purged and re-added");
        forget(set);
    }

    // ---- differential: the same timely history applied to a replica that purges at arbitrary
    //      moments and to one that never purges shows the same live ids and stamps
    #[derive(Copy, Clone)]
    struct Op {
        is_delete: bool,
        key: Key,
        ts: HLCTimestamp,
        source: usize,
    }

    fn differential<const N: usize, const K: usize>() {
        let mut plain = any_state::<N>();
        let mut purging = plain.clone();
        let mut purges = 0;
        let mut i = 0;
        while i < K {
            let op = Op { is_delete: kani::any(), key: any_key(), ts: any_ts(), source: any_source::<N>() };
            // delivered less than the forgiveness period after its timestamp (skew included): the
            // replica has seen nothing from any origin stamped >= 3600 s after it
            kani::assume(timely_global(&plain, op.ts));
            kani::assume(fresh_stamp(&plain, op.ts));
            if kani::any() {
                let p = purging.purge_old_deletes();
                purges += 1;
                forget(p);
            }
            let a = if op.is_delete { plain.delete_with_source(op.source, op.key, op.ts) } else { plain.insert_with_source(op.source, op.key, op.ts) };
            let b = if op.is_delete { purging.delete_with_source(op.source, op.key, op.ts) } else { purging.insert_with_source(op.source, op.key, op.ts) };
            let _ = (a, b);
            let mut k = 0;
            while k < KEYS {
                let key = k as Key;
                assert!(plain.get(&key).copied() == purging.get(&key).copied(),
                        "purging at arbitrary moments never changes which ids are live, nor their stamps");
                k += 1;
            }
            i += 1;
        }
        kani::cover!(purges >= 1, "a purge happened inside the history");
        forget(plain);
        forget(purging);
    }

    #[kani::proof]
    #[kani::unwind(@@UNWIND@@)]
    fn c08_differential_k1_n2() {
        differential::<2, 1>();
    }

    #[kani::proof]
    #[kani::unwind(@@UNWIND@@)]
    fn c08_differential_k2_n2() {
        differential::<2, 2>();
    }
    // @@PLAYBACK@@
}

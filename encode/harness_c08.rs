// C08 — purging tombstones is invisible and deletes stay deleted (single-replica facts + differential).
#[cfg(kani)]
mod verif_c08 {
    use super::verif_support::*;
    use super::*;

    fn cutoff_of<const N: usize>(set: &OrSWotSet<N>, node: u8) -> Option<HLCTimestamp> {
        spec_cutoff(&max_of(set, node), node)
    }

    fn below_cutoff<const N: usize>(set: &OrSWotSet<N>, t: HLCTimestamp) -> bool {
        match cutoff_of(set, t.node()) {
            Some(c) => t < c,
            None => false,
        }
    }

    // ---- inductive step: purge from an arbitrary invariant state
    fn purge_step<const N: usize>() {
        let mut set = any_state::<N>();
        let mut before = [View::Nothing; KEYS];
        let mut k = 0;
        while k < KEYS {
            before[k] = view_of(&set, k as Key);
            k += 1;
        }

        let purged = set.purge_old_deletes();

        // (a) which ids are live, and their stamps, is unchanged
        // (b) exactly the tombstones below their origin's cut-off are gone and are reported, once, with their stamp
        let mut expected = 0usize;
        let mut k = 0;
        while k < KEYS {
            let key = k as Key;
            let after = view_of(&set, key);
            match before[k] {
                View::Live(_) | View::Nothing => assert!(after == before[k], "purging never changes live ids or creates anything"),
                View::Dead(t) => {
                    if below_cutoff(&set, t) {
                        assert!(after == View::Nothing, "a tombstone below the cut-off is purged");
                        expected += 1;
                        let mut hits = 0;
                        let mut i = 0;
                        while i < KEYS {
                            if i < purged.len() && purged[i] == (key, t) {
                                hits += 1;
                            }
                            i += 1;
                        }
                        assert!(hits == 1, "a purged tombstone is reported exactly once with its stamp");
                    } else {
                        assert!(after == before[k], "a tombstone not below the cut-off stays");
                    }
                },
            }
            k += 1;
        }
        assert!(purged.len() == expected, "only purged tombstones are reported");

        // (c) deletes stay deleted: anything from the deleting node that is not newer than a purged
        //     delete is still refused and changes nothing
        if purged.len() > 0 {
            let i: usize = kani::any();
            kani::assume(i < purged.len() && i < KEYS);
            let (_, gone) = purged[i];
            let ts = any_ts_of(gone.node());
            kani::assume(ts <= gone);
            let key = any_key();
            let source = any_source::<N>();
            let is_delete: bool = kani::any();
            let mut mid = [View::Nothing; KEYS];
            let mut k = 0;
            while k < KEYS {
                mid[k] = view_of(&set, k as Key);
                k += 1;
            }
            assert!(!set.will_apply(key, ts), "an operation not newer than a purged delete is predicted not to apply");
            let ret = if is_delete { set.delete_with_source(source, key, ts) } else { set.insert_with_source(source, key, ts) };
            assert!(!ret, "an operation not newer than a purged delete is refused");
            let mut k = 0;
            while k < KEYS {
                assert!(view_of(&set, k as Key) == mid[k], "...and changes nothing");
                k += 1;
            }
            kani::cover!(!is_delete && key == purged[i].0, "re-insert of the purged id at an old stamp is refused");
        }
        assert!(inv(&set), "invariant preserved");
        kani::cover!(purged.len() >= 1, "something was purged");
        kani::cover!(purged.len() == 0, "nothing purgeable");
        forget(set);
        forget(purged);
    }

    #[kani::proof]
    #[kani::unwind(@@UNWIND@@)]
    fn c08_purge_step_n2() {
        purge_step::<2>();
    }

    #[kani::proof]
    #[kani::unwind(@@UNWIND@@)]
    fn c08_purge_step_n1() {
        purge_step::<1>();
    }


    // ---- the mechanism that keeps purged deletes deleted for ever: whatever operation arrives
    //      (timely or not, accepted or refused), no newest-seen stamp and no purge cut-off ever moves
    //      backwards.  A purged delete was below its origin's cut-off when it was purged, so with
    //      monotone cut-offs every later operation of that origin not newer than it stays refused
    //      (c08_purge_step shows the refusal for the state right after the purge).
    fn monotone_step<const N: usize>() {
        let mut set = any_state::<N>();
        let mut max_before = [[None; N]; NODES];
        let mut cut_before = [None; NODES];
        let mut n = 0;
        while n < NODES {
            max_before[n] = max_of(&set, n as u8);
            cut_before[n] = set.versions.safe_last_stamps.get(&(n as u8)).copied();
            n += 1;
        }
        let is_delete: bool = kani::any();
        let key = any_key();
        let ts = any_ts();
        let source = any_source::<N>();
        let ret = if is_delete { set.delete_with_source(source, key, ts) } else { set.insert_with_source(source, key, ts) };
        let mut n = 0;
        while n < NODES {
            let after = max_of(&set, n as u8);
            let mut s = 0;
            while s < N {
                match (max_before[n][s], after[s]) {
                    (Some(b), Some(a)) => assert!(a >= b, "a newest-seen stamp never moves backwards"),
                    (Some(_), None) => assert!(false, "a newest-seen stamp never disappears"),
                    _ => {},
                }
                s += 1;
            }
            let cut_after = set.versions.safe_last_stamps.get(&(n as u8)).copied();
            match (cut_before[n], cut_after) {
                (Some(b), Some(a)) => assert!(a >= b, "a purge cut-off never moves backwards"),
                (Some(_), None) => assert!(false, "a purge cut-off never disappears"),
                _ => {},
            }
            // and it is what the newest-seen stamps say it is (min over sources, minus the window)
            assert!(cut_after == spec_cutoff(&after, n as u8), "cut-off == spec(newest-seen stamps)");
            n += 1;
        }
        kani::cover!(ret && newest_seen(&set, ts.node()).map(|m| m > ts).unwrap_or(false), "an out-of-order operation was applied");
        kani::cover!(!ret, "refused operation");
        forget(set);
    }

    #[kani::proof]
    #[kani::unwind(@@UNWIND@@)]
    fn c08_cutoff_monotone_n2() {
        monotone_step::<2>();
    }

    // ---- an operation followed by a purge: the cut-off used by the purge is the one the REAL code
    //      recomputed; only tombstones that EVERY source has seen the origin pass by more than the
    //      window may go, and no live id changes
    #[kani::proof]
    #[kani::unwind(@@UNWIND@@)]
    fn c08_op_then_purge_n2() {
        let mut set = any_state::<2>();
        let is_delete: bool = kani::any();
        let key = any_key();
        let ts = any_ts();
        let source = any_source::<2>();
        if is_delete {
            set.delete_with_source(source, key, ts);
        } else {
            set.insert_with_source(source, key, ts);
        }
        let mut before = [View::Nothing; KEYS];
        let mut k = 0;
        while k < KEYS {
            before[k] = view_of(&set, k as Key);
            k += 1;
        }
        let purged = set.purge_old_deletes();
        let mut gone = 0;
        let mut k = 0;
        while k < KEYS {
            let after = view_of(&set, k as Key);
            match (before[k], after) {
                (View::Dead(t), View::Nothing) => {
                    gone += 1;
                    // every source has seen the origin at least a window past the tombstone
                    let max = max_of(&set, t.node());
                    let mut s = 0;
                    while s < 2 {
                        match max[s] {
                            Some(m) => assert!(m.seconds() >= t.seconds() + WINDOW, "purged only after EVERY source saw the origin a window past the delete"),
                            None => assert!(false, "a tombstone is never purged while some source has not seen its origin at all"),
                        }
                        s += 1;
                    }
                },
                _ => assert!(after == before[k], "a purge only removes tombstones"),
            }
            k += 1;
        }
        assert!(purged.len() == gone);
        assert!(inv(&set));
        kani::cover!(gone >= 1, "a tombstone was purged after the operation");
        forget(set);
        forget(purged);
    }

    // ---- purge followed by re-adding the reported tombstones restores every view
    #[kani::proof]
    #[kani::unwind(@@UNWIND@@)]
    fn c08_readd_restores_n2() {
        let mut set = any_state::<2>();
        let mut before = [View::Nothing; KEYS];
        let mut k = 0;
        while k < KEYS {
            before[k] = view_of(&set, k as Key);
            k += 1;
        }
        let purged = set.purge_old_deletes();
        let n = purged.len();
        set.add_raw_tombstones(purged);
        let mut k = 0;
        while k < KEYS {
            assert!(view_of(&set, k as Key) == before[k], "re-adding the reported tombstones undoes the purge");
            k += 1;
        }
        assert!(inv(&set));
        kani::cover!(n >= 1, "something was purged and re-added");
        forget(set);
    }

    // ---- differential: the same timely history applied to a replica that purges at arbitrary
    //      moments and to one that never purges shows the same live ids and stamps
    #[derive(Copy, Clone)]
    struct Op {
        is_delete: bool,
        key: Key,
        ts: HLCTimestamp,
        source: usize,
    }

    fn differential<const N: usize, const K: usize>() {
        let mut plain = any_state::<N>();
        let mut purging = plain.clone();
        let mut purges = 0;
        let mut i = 0;
        while i < K {
            let op = Op { is_delete: kani::any(), key: any_key(), ts: any_ts(), source: any_source::<N>() };
            // delivered less than the forgiveness period after its timestamp (skew included): the
            // replica has seen nothing from any origin stamped >= 3600 s after it
            kani::assume(timely_global(&plain, op.ts));
            kani::assume(fresh_stamp(&plain, op.ts));
            if kani::any() {
                let p = purging.purge_old_deletes();
                purges += 1;
                forget(p);
            }
            let a = if op.is_delete { plain.delete_with_source(op.source, op.key, op.ts) } else { plain.insert_with_source(op.source, op.key, op.ts) };
            let b = if op.is_delete { purging.delete_with_source(op.source, op.key, op.ts) } else { purging.insert_with_source(op.source, op.key, op.ts) };
            let _ = (a, b);
            let mut k = 0;
            while k < KEYS {
                let key = k as Key;
                assert!(plain.get(&key).copied() == purging.get(&key).copied(),
                        "purging at arbitrary moments never changes which ids are live, nor their stamps");
                k += 1;
            }
            i += 1;
        }
        kani::cover!(purges >= 1, "a purge happened inside the history");
        forget(plain);
        forget(purging);
    }

    #[kani::proof]
    #[kani::unwind(@@UNWIND@@)]
    fn c08_differential_k1_n2() {
        differential::<2, 1>();
    }

    #[kani::proof]
    #[kani::unwind(@@UNWIND@@)]
    fn c08_differential_k2_n2() {
        differential::<2, 2>();
    }
    // @@PLAYBACK@@
}

// C15 — replica selection yields enough distinct live peers or reports too few.
// Appended to a verbatim copy of datacake-node/src/nodes_selector.rs (child module: the private
// select_n_nodes and NodeCycler.cursor are reachable).
#[cfg(kani)]
mod verif_c15 {
    use std::net::{IpAddr, Ipv4Addr};

    use super::*;

    const DC_NAMES: [&str; 4] = ["dc-0", "dc-1", "dc-2", "dc-3"];

    fn addr(dc: usize, node: usize) -> SocketAddr {
        SocketAddr::new(IpAddr::V4(Ipv4Addr::new(127, dc as u8, 0, node as u8)), 80)
    }

    /// The membership map the selector actor holds for `layout`, every per-DC rotating cursor at an
    /// ARBITRARY reachable position ("whatever selections were made before").
    fn membership(layout: &[usize]) -> BTreeMap<Cow<'static, str>, NodeCycler> {
        let mut dcs = BTreeMap::new();
        let mut d = 0;
        while d < layout.len() {
            let mut nodes = Nodes::new();
            let mut i = 0;
            while i < layout[d] {
                nodes.push(addr(d, i));
                i += 1;
            }
            let mut cycler = NodeCycler::from(nodes);
            let c: usize = kani::any();
            kani::assume(c <= layout[d]);
            cycler.cursor = c;
            dcs.insert(Cow::Borrowed(DC_NAMES[d]), cycler);
            d += 1;
        }
        dcs
    }

    /// (dc, node) of an address built by `addr`, anything else -> u32::MAX.  The post-conditions compare these small
    /// integers instead of `SocketAddr`s (an enum compared through memcmp: ~1800 memcmp unwindings per harness).
    fn id_of(a: &SocketAddr) -> u32 {
        match a {
            SocketAddr::V4(v) => {
                let o = v.ip().octets();
                if o[0] == 127 && o[2] == 0 && v.port() == 80 {
                    ((o[1] as u32) << 8) | o[3] as u32
                } else {
                    u32::MAX
                }
            },
            _ => u32::MAX,
        }
    }

    fn is_member(layout: &[usize], id: u32) -> bool {
        let mut d = 0;
        while d < layout.len() {
            let mut i = 0;
            while i < layout[d] {
                if (((d as u32) << 8) | i as u32) == id {
                    return true;
                }
                i += 1;
            }
            d += 1;
        }
        false
    }

    /// how many *other* live members the level requires
    fn required(layout: &[usize], local_dc: usize, level: Consistency) -> usize {
        let total: usize = layout.iter().sum();
        match level {
            Consistency::None => 0,
            Consistency::One => 1,
            Consistency::Two => 2,
            Consistency::Three => 3,
            Consistency::Quorum => total / 2,
            Consistency::LocalQuorum => layout[local_dc] / 2,
            Consistency::All => total - 1,
            Consistency::EachQuorum => {
                let mut n = 0;
                let mut d = 0;
                while d < layout.len() {
                    n += if d == local_dc { layout[d] / 2 } else { layout[d] / 2 + 1 };
                    d += 1;
                }
                n
            },
        }
    }

    fn check(layout: &[usize], local_dc: usize, local_node: usize, level: Consistency) {
        let mut dcs = membership(layout);
        let total: usize = layout.iter().sum();
        let me = addr(local_dc, local_node);
        let need = required(layout, local_dc, level);
        let exact = matches!(level, Consistency::One | Consistency::Two | Consistency::Three);
        let res = DCAwareSelector.select_nodes(me, DC_NAMES[local_dc], total, &mut dcs, level);
        match &res {
            Ok(nodes) => {
                const MAX_SELECTED: usize = @@NODEVEC_CAP@@;
                assert!(nodes.len() <= MAX_SELECTED, "harness bound on the number of selected nodes");
                let me_id = id_of(&me);
                let mut ids = [u32::MAX; MAX_SELECTED];
                let mut i = 0;
                while i < MAX_SELECTED {
                    if i < nodes.len() {
                        let id = id_of(&nodes[i]);
                        assert!(is_member(layout, id), "a selected node is a current member");
                        assert!(id != me_id, "the local node is never selected");
                        let mut j = 0;
                        while j < i {
                            assert!(ids[j] != id, "no node is selected twice");
                            j += 1;
                        }
                        ids[i] = id;
                    }
                    i += 1;
                }
                assert!(nodes.len() >= need, "at least as many nodes as the level requires");
                if exact {
                    assert!(nodes.len() == need, "exactly n nodes for One/Two/Three");
                }
            },
            Err(ConsistencyError::NotEnoughNodes { .. }) => {
                assert!(
                    total - 1 < need,
                    "not-enough-nodes is reported only when fewer than the required number of other live nodes exist"
                );
            },
            Err(_) => assert!(false, "selection fails only with not-enough-nodes"),
        }
        kani::cover!(true, "the selection returned and was checked");
        std::mem::forget(res);
        std::mem::forget(dcs);
    }

    /// four of the levels that do not go through select_n_nodes, chosen symbolically (Quorum has a harness of its own:
    /// its round-robin loop over per-data-centre iterators is ten times as expensive)
    fn other_levels(layout: &[usize], local_dc: usize, local_node: usize) {
        let lv: u8 = kani::any();
        kani::assume(lv < 4);
        match lv {
            0 => check(layout, local_dc, local_node, Consistency::None),
            1 => check(layout, local_dc, local_node, Consistency::LocalQuorum),
            2 => check(layout, local_dc, local_node, Consistency::All),
            _ => check(layout, local_dc, local_node, Consistency::EachQuorum),
        }
    }

    macro_rules! selector_others_harness {
        ($name:ident, $layout:expr, $dc:expr, $node:expr) => {
            #[kani::proof]
            #[kani::unwind(@@UNWIND@@)]
            fn $name() {
                other_levels(&$layout, $dc, $node);
            }
        };
    }

    macro_rules! selector_harness {
        ($name:ident, $layout:expr, $dc:expr, $node:expr, $level:expr) => {
            #[kani::proof]
            #[kani::unwind(@@UNWIND@@)]
            fn $name() {
                check(&$layout, $dc, $node, $level);
            }
        };
    }

    // one harness per (layout, local position, level): generated by plans/c15.py
@@HARNESSES@@
    // @@PLAYBACK@@
}

// C15 — replica selection yields enough distinct live peers or reports too few.
// Appended to a verbatim copy of datacake-node/src/nodes_selector.rs (child module: the private
// select_n_nodes and NodeCycler.cursor are reachable).
#[cfg(kani)]
mod verif_c15 {
    use std::net::{IpAddr, Ipv4Addr};

    use super::*;

    const DC_NAMES: [&str; 4] = ["dc-0", "dc-1", "dc-2", "dc-3"];

    fn addr(dc: usize, node: usize) -> SocketAddr {
        SocketAddr::new(IpAddr::V4(Ipv4Addr::new(127, dc as u8, 0, node as u8)), 80)
    }

    /// The membership map the selector actor holds for `layout`, every per-DC rotating cursor at an
    /// ARBITRARY reachable position ("whatever selections were made before").
    fn membership(layout: &[usize]) -> BTreeMap<Cow<'static, str>, NodeCycler> {
        let mut dcs = BTreeMap::new();
        let mut d = 0;
        while d < layout.len() {
            let mut nodes = Nodes::new();
            let mut i = 0;
            while i < layout[d] {
                nodes.push(addr(d, i));
                i += 1;
            }
            let mut cycler = NodeCycler::from(nodes);
            let c: usize = kani::any();
            kani::assume(c <= layout[d]);
            cycler.cursor = c;
            dcs.insert(Cow::Borrowed(DC_NAMES[d]), cycler);
            d += 1;
        }
        dcs
    }

    fn is_member(layout: &[usize], a: SocketAddr) -> bool {
        let mut d = 0;
        while d < layout.len() {
            let mut i = 0;
            while i < layout[d] {
                if addr(d, i) == a {
                    return true;
                }
                i += 1;
            }
            d += 1;
        }
        false
    }

    /// how many *other* live members the level requires
    fn required(layout: &[usize], local_dc: usize, level: Consistency) -> usize {
        let total: usize = layout.iter().sum();
        match level {
            Consistency::None => 0,
            Consistency::One => 1,
            Consistency::Two => 2,
            Consistency::Three => 3,
            Consistency::Quorum => total / 2,
            Consistency::LocalQuorum => layout[local_dc] / 2,
            Consistency::All => total - 1,
            Consistency::EachQuorum => {
                let mut n = 0;
                let mut d = 0;
                while d < layout.len() {
                    n += if d == local_dc { layout[d] / 2 } else { layout[d] / 2 + 1 };
                    d += 1;
                }
                n
            },
        }
    }

    fn check(layout: &[usize], local_dc: usize, local_node: usize, level: Consistency) {
        let mut dcs = membership(layout);
        let total: usize = layout.iter().sum();
        let me = addr(local_dc, local_node);
        let need = required(layout, local_dc, level);
        let exact = matches!(level, Consistency::One | Consistency::Two | Consistency::Three);
        let res = DCAwareSelector.select_nodes(me, DC_NAMES[local_dc], total, &mut dcs, level);
        match &res {
            Ok(nodes) => {
                let mut i = 0;
                while i < nodes.len() {
                    assert!(is_member(layout, nodes[i]), "a selected node is a current member");
                    assert!(nodes[i] != me, "the local node is never selected");
                    let mut j = 0;
                    while j < i {
                        assert!(nodes[j] != nodes[i], "no node is selected twice");
                        j += 1;
                    }
                    i += 1;
                }
                assert!(nodes.len() >= need, "at least as many nodes as the level requires");
                if exact {
                    assert!(nodes.len() == need, "exactly n nodes for One/Two/Three");
                }
                kani::cover!(nodes.len() >= 1, "a non-empty selection");
            },
            Err(ConsistencyError::NotEnoughNodes { .. }) => {
                assert!(
                    total - 1 < need,
                    "not-enough-nodes is reported only when fewer than the required number of other live nodes exist"
                );
            },
            Err(_) => assert!(false, "selection fails only with not-enough-nodes"),
        }
        std::mem::forget(res);
        std::mem::forget(dcs);
    }

    fn all_levels(layout: &[usize], local_dc: usize, local_node: usize) {
        let lv: u8 = kani::any();
        kani::assume(lv < 8);
        match lv {
            0 => check(layout, local_dc, local_node, Consistency::None),
            1 => check(layout, local_dc, local_node, Consistency::One),
            2 => check(layout, local_dc, local_node, Consistency::Two),
            3 => check(layout, local_dc, local_node, Consistency::Three),
            4 => check(layout, local_dc, local_node, Consistency::Quorum),
            5 => check(layout, local_dc, local_node, Consistency::LocalQuorum),
            6 => check(layout, local_dc, local_node, Consistency::All),
            _ => check(layout, local_dc, local_node, Consistency::EachQuorum),
        }
    }

    macro_rules! selector_harness {
        ($name:ident, $layout:expr, $dc:expr, $node:expr) => {
            #[kani::proof]
            #[kani::unwind(8)]
            fn $name() {
                all_levels(&$layout, $dc, $node);
            }
        };
    }

    selector_harness!(c15_l3_p00, [3], 0, 0);
    selector_harness!(c15_l3_p01, [3], 0, 1);
    selector_harness!(c15_l3_p02, [3], 0, 2);
    selector_harness!(c15_l22_p00, [2, 2], 0, 0);
    selector_harness!(c15_l22_p11, [2, 2], 1, 1);
    selector_harness!(c15_l13_p00, [1, 3], 0, 0);
    selector_harness!(c15_l13_p11, [1, 3], 1, 1);
    selector_harness!(c15_l111_p10, [1, 1, 1], 1, 0);
    selector_harness!(c15_l222_p00, [2, 2, 2], 0, 0);

    // one concrete configuration, one level: cost probe / vacuity witness
    #[kani::proof]
    #[kani::unwind(8)]
    fn c15_probe_l3_two() {
        check(&[3], 0, 0, Consistency::Two);
    }
    // @@PLAYBACK@@
}

//! Solver-friendly stand-in for `std::collections::BTreeMap` with general (non-integer) keys:
//! a sorted association list over a fixed array.  Only the API subset nodes_selector.rs uses
//! (new/insert/get/len/iter/iter_mut/values, by-value and by-reference iteration, ascending key
//! order like the real BTreeMap).  Capacity overflow is an assertion failure, never a silent
//! truncation.  Validated natively against std::collections::BTreeMap (vsel_difftest.rs).
use core::borrow::Borrow;

pub const SEL_CAP: usize = 4;

pub struct BTreeMap<K, V> {
    slots: [Option<(K, V)>; SEL_CAP],
}

impl<K: Ord, V> Default for BTreeMap<K, V> {
    fn default() -> Self {
        Self::new()
    }
}

impl<K: Ord, V> BTreeMap<K, V> {
    pub fn new() -> Self {
        Self { slots: [None, None, None, None] }
    }

    pub fn len(&self) -> usize {
        let mut n = 0;
        let mut i = 0;
        while i < SEL_CAP {
            if self.slots[i].is_some() {
                n += 1;
            }
            i += 1;
        }
        n
    }

    pub fn is_empty(&self) -> bool {
        self.len() == 0
    }

    pub fn get<Q: ?Sized + Ord>(&self, q: &Q) -> Option<&V>
    where
        K: Borrow<Q>,
    {
        let mut i = 0;
        while i < SEL_CAP {
            if let Some((k, v)) = &self.slots[i] {
                if k.borrow() == q {
                    return Some(v);
                }
            }
            i += 1;
        }
        None
    }

    pub fn get_mut<Q: ?Sized + Ord>(&mut self, q: &Q) -> Option<&mut V>
    where
        K: Borrow<Q>,
    {
        for s in self.slots.iter_mut() {
            if let Some((k, v)) = s {
                if (*k).borrow() == q {
                    return Some(v);
                }
            }
        }
        None
    }

    pub fn contains_key<Q: ?Sized + Ord>(&self, q: &Q) -> bool
    where
        K: Borrow<Q>,
    {
        self.get(q).is_some()
    }

    pub fn insert(&mut self, k: K, v: V) -> Option<V> {
        let mut i = 0;
        while i < SEL_CAP {
            if let Some((sk, sv)) = &mut self.slots[i] {
                if *sk == k {
                    return Some(core::mem::replace(sv, v));
                }
            } else {
                break;
            }
            i += 1;
        }
        assert!(i < SEL_CAP, "vsel::BTreeMap capacity exceeded");
        self.slots[i] = Some((k, v));
        // keep ascending key order (occupied slots are a prefix)
        while i > 0 {
            let swap = match (&self.slots[i - 1], &self.slots[i]) {
                (Some((a, _)), Some((b, _))) => a > b,
                _ => false,
            };
            if !swap {
                break;
            }
            self.slots.swap(i - 1, i);
            i -= 1;
        }
        None
    }

    pub fn remove<Q: ?Sized + Ord>(&mut self, q: &Q) -> Option<V>
    where
        K: Borrow<Q>,
    {
        let mut i = 0;
        let mut out = None;
        while i < SEL_CAP {
            let hit = match &self.slots[i] {
                Some((k, _)) => k.borrow() == q,
                None => false,
            };
            if hit {
                out = self.slots[i].take().map(|(_, v)| v);
                let mut j = i;
                while j + 1 < SEL_CAP {
                    self.slots.swap(j, j + 1);
                    j += 1;
                }
                break;
            }
            i += 1;
        }
        out
    }

    pub fn clear(&mut self) {
        let mut i = 0;
        while i < SEL_CAP {
            self.slots[i] = None;
            i += 1;
        }
    }

    pub fn iter(&self) -> Iter<'_, K, V> {
        Iter { slots: &self.slots, pos: 0 }
    }

    pub fn iter_mut(&mut self) -> IterMut<'_, K, V> {
        IterMut { inner: self.slots.iter_mut() }
    }

    pub fn values(&self) -> Values<'_, K, V> {
        Values { slots: &self.slots, pos: 0 }
    }

    pub fn keys(&self) -> Keys<'_, K, V> {
        Keys { slots: &self.slots, pos: 0 }
    }
}

// The shared iterators walk the slot array with an explicit position that advances unconditionally, so the position is a
// constant on every path whenever the occupancy of the slots is (occupied slots are a prefix): the solver sees the end of
// the iteration syntactically instead of unrolling every consuming loop to the unwind bound.
pub struct Iter<'a, K, V> {
    slots: &'a [Option<(K, V)>; SEL_CAP],
    pos: usize,
}
impl<'a, K, V> Iterator for Iter<'a, K, V> {
    type Item = (&'a K, &'a V);
    fn next(&mut self) -> Option<Self::Item> {
        while self.pos < SEL_CAP {
            let i = self.pos;
            self.pos += 1;
            if let Some((k, v)) = &self.slots[i] {
                return Some((k, v));
            }
        }
        None
    }
}

pub struct IterMut<'a, K, V> {
    inner: core::slice::IterMut<'a, Option<(K, V)>>,
}
impl<'a, K, V> Iterator for IterMut<'a, K, V> {
    type Item = (&'a K, &'a mut V);
    fn next(&mut self) -> Option<Self::Item> {
        loop {
            match self.inner.next() {
                None => return None,
                Some(Some((k, v))) => return Some((&*k, v)),
                Some(None) => {},
            }
        }
    }
}

pub struct Values<'a, K, V> {
    slots: &'a [Option<(K, V)>; SEL_CAP],
    pos: usize,
}
impl<'a, K, V> Iterator for Values<'a, K, V> {
    type Item = &'a V;
    fn next(&mut self) -> Option<Self::Item> {
        while self.pos < SEL_CAP {
            let i = self.pos;
            self.pos += 1;
            if let Some((_, v)) = &self.slots[i] {
                return Some(v);
            }
        }
        None
    }
}

pub struct Keys<'a, K, V> {
    slots: &'a [Option<(K, V)>; SEL_CAP],
    pos: usize,
}
impl<'a, K, V> Iterator for Keys<'a, K, V> {
    type Item = &'a K;
    fn next(&mut self) -> Option<Self::Item> {
        while self.pos < SEL_CAP {
            let i = self.pos;
            self.pos += 1;
            if let Some((k, _)) = &self.slots[i] {
                return Some(k);
            }
        }
        None
    }
}

impl<'a, K: Ord, V> IntoIterator for &'a BTreeMap<K, V> {
    type Item = (&'a K, &'a V);
    type IntoIter = Iter<'a, K, V>;
    fn into_iter(self) -> Self::IntoIter {
        self.iter()
    }
}

impl<'a, K: Ord, V> IntoIterator for &'a mut BTreeMap<K, V> {
    type Item = (&'a K, &'a mut V);
    type IntoIter = IterMut<'a, K, V>;
    fn into_iter(self) -> Self::IntoIter {
        self.iter_mut()
    }
}

pub struct IntoIter<K, V> {
    slots: [Option<(K, V)>; SEL_CAP],
    pos: usize,
}
impl<K, V> Iterator for IntoIter<K, V> {
    type Item = (K, V);
    fn next(&mut self) -> Option<(K, V)> {
        while self.pos < SEL_CAP {
            let i = self.pos;
            self.pos += 1;
            if let Some(kv) = self.slots[i].take() {
                return Some(kv);
            }
        }
        None
    }
}
impl<K: Ord, V> IntoIterator for BTreeMap<K, V> {
    type Item = (K, V);
    type IntoIter = IntoIter<K, V>;
    fn into_iter(self) -> Self::IntoIter {
        IntoIter { slots: self.slots, pos: 0 }
    }
}

// ---------------------------------------------------------------------------------------------
/// Solver-friendly stand-in for `SmallVec<[SocketAddr; 5]>` (the `Nodes` alias): a fixed array of
/// `NODEVEC_CAP` addresses (generated per run: vsel_cfg.rs) plus a length; only the API subset nodes_selector.rs uses.  The real
/// SmallVec is a union of an inline array and a heap pointer whose `extend`/`clone`/`IntoIter` paths
/// made the Quorum and All levels run out of memory (>14 GB) on a 3-node layout.  Exceeding the
/// capacity is an assertion failure.  Validated natively against the real smallvec (vsel_difftest.rs).
pub use crate::vsel_cfg::NODEVEC_CAP;

#[derive(Clone, Debug)]
pub struct NodeVec {
    buf: [std::net::SocketAddr; NODEVEC_CAP],
    len: usize,
}

const NODEVEC_FILL: std::net::SocketAddr =
    std::net::SocketAddr::new(std::net::IpAddr::V4(std::net::Ipv4Addr::new(0, 0, 0, 0)), 0);

impl Default for NodeVec {
    fn default() -> Self {
        Self::new()
    }
}

impl NodeVec {
    pub fn new() -> Self {
        Self { buf: [NODEVEC_FILL; NODEVEC_CAP], len: 0 }
    }

    pub fn len(&self) -> usize {
        self.len
    }

    pub fn is_empty(&self) -> bool {
        self.len == 0
    }

    pub fn push(&mut self, v: std::net::SocketAddr) {
        assert!(self.len < NODEVEC_CAP, "vsel::NodeVec capacity exceeded (bound too small for this run)");
        let mut j = 0;
        while j < NODEVEC_CAP {
            if j == self.len {
                self.buf[j] = v;
            }
            j += 1;
        }
        self.len += 1;
    }

    pub fn extend<I: IntoIterator<Item = std::net::SocketAddr>>(&mut self, iter: I) {
        for v in iter {
            self.push(v);
        }
    }

    pub fn get(&self, i: usize) -> Option<&std::net::SocketAddr> {
        let mut j = 0;
        while j < NODEVEC_CAP {
            if j == i && j < self.len {
                return Some(&self.buf[j]);
            }
            j += 1;
        }
        None
    }

    pub fn contains(&self, x: &std::net::SocketAddr) -> bool {
        let mut j = 0;
        while j < NODEVEC_CAP {
            if j < self.len && self.buf[j] == *x {
                return true;
            }
            j += 1;
        }
        false
    }

    pub fn iter(&self) -> NodeVecIter<'_> {
        NodeVecIter { v: self, pos: 0 }
    }

    pub fn as_slice(&self) -> &[std::net::SocketAddr] {
        &self.buf[..self.len]
    }

    pub fn clear(&mut self) {
        self.len = 0;
    }
}

impl AsRef<[std::net::SocketAddr]> for NodeVec {
    fn as_ref(&self) -> &[std::net::SocketAddr] {
        self.as_slice()
    }
}

impl core::ops::Index<usize> for NodeVec {
    type Output = std::net::SocketAddr;
    fn index(&self, i: usize) -> &std::net::SocketAddr {
        match self.get(i) {
            Some(v) => v,
            None => panic!("vsel::NodeVec index out of bounds"),
        }
    }
}

impl PartialEq for NodeVec {
    fn eq(&self, o: &Self) -> bool {
        self.as_slice() == o.as_slice()
    }
}

impl FromIterator<std::net::SocketAddr> for NodeVec {
    fn from_iter<I: IntoIterator<Item = std::net::SocketAddr>>(iter: I) -> Self {
        let mut v = Self::new();
        v.extend(iter);
        v
    }
}

pub struct NodeVecIter<'a> {
    v: &'a NodeVec,
    pos: usize,
}
impl<'a> Iterator for NodeVecIter<'a> {
    type Item = &'a std::net::SocketAddr;
    fn next(&mut self) -> Option<&'a std::net::SocketAddr> {
        // `pos` advances unconditionally and stays a constant on every path (see vcoll::VecIntoIter); the length
        // cannot change while the iterator borrows the vector, so after the first None every call returns None
        if self.pos >= NODEVEC_CAP {
            return None;
        }
        let j = self.pos;
        self.pos += 1;
        if j < self.v.len {
            Some(&self.v.buf[j])
        } else {
            None
        }
    }
}
impl<'a> IntoIterator for &'a NodeVec {
    type Item = &'a std::net::SocketAddr;
    type IntoIter = NodeVecIter<'a>;
    fn into_iter(self) -> NodeVecIter<'a> {
        self.iter()
    }
}

pub struct NodeVecIntoIter {
    v: NodeVec,
    pos: usize,
}
impl Iterator for NodeVecIntoIter {
    type Item = std::net::SocketAddr;
    fn next(&mut self) -> Option<std::net::SocketAddr> {
        if self.pos >= NODEVEC_CAP {
            return None;
        }
        let j = self.pos;
        self.pos += 1;
        if j < self.v.len {
            Some(self.v.buf[j])
        } else {
            None
        }
    }
}
impl IntoIterator for NodeVec {
    type Item = std::net::SocketAddr;
    type IntoIter = NodeVecIntoIter;
    fn into_iter(self) -> NodeVecIntoIter {
        NodeVecIntoIter { v: self, pos: 0 }
    }
}


// ---- appended to vsel.rs for the native encoder validation: the association-list model against
//      std::collections::BTreeMap over random call sequences (same returns, same iteration order)
#[cfg(test)]
mod vsel_difftest {
    use std::borrow::Cow;

    struct Lcg(u64);
    impl Lcg {
        fn next(&mut self) -> u64 {
            self.0 = self.0.wrapping_mul(6364136223846793005).wrapping_add(1442695040888963407);
            self.0 >> 33
        }
    }

    #[test]
    fn nodevec_matches_smallvec() {
        use std::net::{IpAddr, Ipv4Addr, SocketAddr};
        let seed: u64 = std::env::var("VERIF_SEED").ok().and_then(|s| s.parse().ok()).unwrap_or(0);
        let mut rng = Lcg(0xC15_0000 ^ seed);
        let addr = |x: u64| SocketAddr::new(IpAddr::V4(Ipv4Addr::new(127, (x % 3) as u8, 0, (x % 5) as u8)), 80);
        for _round in 0..3000 {
            let mut m = super::NodeVec::new();
            let mut s: smallvec::SmallVec<[SocketAddr; 5]> = smallvec::SmallVec::new();
            for _ in 0..10 {
                let a = addr(rng.next());
                match rng.next() % 6 {
                    0 | 1 => {
                        if s.len() < super::NODEVEC_CAP {
                            m.push(a);
                            s.push(a);
                        }
                    },
                    2 => {
                        let extra: Vec<SocketAddr> = (0..(rng.next() % 3)).map(|_| addr(rng.next())).collect();
                        if s.len() + extra.len() <= super::NODEVEC_CAP {
                            m.extend(extra.iter().copied());
                            s.extend(extra.iter().copied());
                        }
                    },
                    3 => assert_eq!(m.contains(&a), s.contains(&a)),
                    4 => {
                        let i = (rng.next() % 10) as usize;
                        assert_eq!(m.get(i), s.get(i));
                    },
                    _ => {
                        let c1: Vec<SocketAddr> = m.clone().into_iter().collect();
                        let c2: Vec<SocketAddr> = s.clone().into_iter().collect();
                        assert_eq!(c1, c2);
                    },
                }
                assert_eq!(m.len(), s.len());
                assert_eq!(m.is_empty(), s.is_empty());
                let a1: Vec<SocketAddr> = m.iter().copied().collect();
                let a2: Vec<SocketAddr> = s.iter().copied().collect();
                assert_eq!(a1, a2);
                assert_eq!(m.as_ref(), s.as_ref() as &[SocketAddr]);
                for i in 0..s.len() {
                    assert_eq!(m[i], s[i]);
                }
                // a by-reference iterator keeps returning None once exhausted
                let mut it = m.iter();
                for _ in 0..s.len() {
                    assert!(it.next().is_some());
                }
                assert!(it.next().is_none() && it.next().is_none());
            }
        }
    }

    const NAMES: [&str; 6] = ["dc-0", "dc-1", "dc-2", "dc-3", "a", "zz"];

    #[test]
    fn model_matches_std_btreemap() {
        let seed: u64 = std::env::var("VERIF_SEED").ok().and_then(|s| s.parse().ok()).unwrap_or(0);
        let mut rng = Lcg(0x5EED_0000 ^ seed);
        for _round in 0..2000 {
            let mut m: super::BTreeMap<Cow<'static, str>, u32> = super::BTreeMap::new();
            let mut s: std::collections::BTreeMap<Cow<'static, str>, u32> = std::collections::BTreeMap::new();
            for _ in 0..12 {
                let name = NAMES[(rng.next() % 6) as usize];
                let v = rng.next() as u32;
                match rng.next() % 5 {
                    0 | 1 => {
                        if s.len() < super::SEL_CAP || s.contains_key(name) {
                            assert_eq!(m.insert(Cow::Borrowed(name), v), s.insert(Cow::Borrowed(name), v));
                        }
                    },
                    2 => assert_eq!(m.remove(name), s.remove(name)),
                    3 => {
                        assert_eq!(m.get(name), s.get(name));
                        assert_eq!(m.contains_key(name), s.contains_key(name));
                    },
                    _ => {
                        if let (Some(a), Some(b)) = (m.get_mut(name), s.get_mut(name)) {
                            *a = v;
                            *b = v;
                        }
                    },
                }
                assert_eq!(m.len(), s.len());
                assert_eq!(m.is_empty(), s.is_empty());
                let a: Vec<(String, u32)> = m.iter().map(|(k, v)| (k.to_string(), *v)).collect();
                let b: Vec<(String, u32)> = s.iter().map(|(k, v)| (k.to_string(), *v)).collect();
                assert_eq!(a, b);
                let a: Vec<u32> = m.values().copied().collect();
                let b: Vec<u32> = s.values().copied().collect();
                assert_eq!(a, b);
                let a: Vec<String> = m.keys().map(|k| k.to_string()).collect();
                let b: Vec<String> = s.keys().map(|k| k.to_string()).collect();
                assert_eq!(a, b);
                let a: Vec<(String, u32)> = (&mut m).into_iter().map(|(k, v)| { *v = v.wrapping_add(1); (k.to_string(), *v) }).collect();
                let b: Vec<(String, u32)> = (&mut s).into_iter().map(|(k, v)| { *v = v.wrapping_add(1); (k.to_string(), *v) }).collect();
                assert_eq!(a, b);
            }
            let a: Vec<(String, u32)> = m.into_iter().map(|(k, v)| (k.to_string(), v)).collect();
            let b: Vec<(String, u32)> = s.into_iter().map(|(k, v)| (k.to_string(), v)).collect();
            assert_eq!(a, b);
        }
    }
}

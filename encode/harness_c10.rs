// C10 — timestamp encoding is lossless and order-preserving; parsing never panics.
// Appended to a verbatim copy of datacake-crdt/src/timestamp.rs.
#[cfg(kani)]
mod verif_c10 {
    use super::*;

    fn any_fields() -> (u32, u8, u16, u8) {
        let s: u32 = kani::any();
        let f: u8 = kani::any();
        kani::assume(f < 250);
        (s, f, kani::any(), kani::any())
    }

    // (a) every valid (time, counter, node) triple survives new() -> accessors -> duration
    #[kani::proof]
    fn c10_fields_roundtrip() {
        let (s, f, c, n) = any_fields();
        let d = Duration::new(s as u64, f as u32 * 4_000_000);
        let ts = HLCTimestamp::new(d, c, n);
        assert!(ts.seconds() == s as u64);
        assert!(ts.fractional() == f);
        assert!(ts.counter() == c);
        assert!(ts.node() == n);
        assert!(ts.datacake_timestamp() == d);
        assert!(ts.unix_timestamp() == d + DATACAKE_EPOCH);
        // bit layout 32|8|16|8
        let packed = ((s as u64) << 32) | ((f as u64) << 24) | ((c as u64) << 8) | n as u64;
        assert!(ts.as_u64() == packed, "bit layout 32|8|16|8");
        // rebuilding from the accessors gives the same stamp
        let again = HLCTimestamp::new(ts.datacake_timestamp(), ts.counter(), ts.node());
        assert!(again == ts);
        kani::cover!(s == u32::MAX && f == 249 && c == u16::MAX && n == u8::MAX, "all fields at their maximum");
    }

    // (a') sub-4ms precision is truncated, never rounded into the next field
    #[kani::proof]
    fn c10_fields_truncation() {
        let s: u32 = kani::any();
        let ms: u16 = kani::any();
        kani::assume(ms < 1000);
        let c: u16 = kani::any();
        let n: u8 = kani::any();
        let ts = HLCTimestamp::new(Duration::from_millis(s as u64 * 1000 + ms as u64), c, n);
        assert!(ts.seconds() == s as u64);
        assert!(ts.fractional() as u16 * 4 <= ms && ms < ts.fractional() as u16 * 4 + 4);
        assert!(ts.fractional() < 250);
        assert!(ts.counter() == c && ts.node() == n);
        kani::cover!(ms == 999, "last millisecond of a second");
    }

    // (b) Ord on stamps == lexicographic order on (seconds, fractional, counter, node)
    #[kani::proof]
    fn c10_order_is_lexicographic() {
        let a = HLCTimestamp::from_u64(kani::any());
        let b = HLCTimestamp::from_u64(kani::any());
        let ka = (a.seconds(), a.fractional(), a.counter(), a.node());
        let kb = (b.seconds(), b.fractional(), b.counter(), b.node());
        assert!(a.cmp(&b) == ka.cmp(&kb));
        assert!((a < b) == (ka < kb));
        assert!((a == b) == (ka == kb));
        assert!(a.partial_cmp(&b) == Some(ka.cmp(&kb)));
        kani::cover!(a.seconds() == b.seconds() && a.fractional() == b.fractional() && a.counter() == b.counter() && a < b,
                     "tie broken by node id");
    }

    // (c) the raw u64 form round-trips both ways
    #[kani::proof]
    fn c10_u64_roundtrip() {
        let v: u64 = kani::any();
        assert!(HLCTimestamp::from_u64(v).as_u64() == v);
        let (s, f, c, n) = any_fields();
        let ts = HLCTimestamp::new(Duration::new(s as u64, f as u32 * 4_000_000), c, n);
        assert!(HLCTimestamp::from_u64(ts.as_u64()) == ts);
        kani::cover!(v == u64::MAX, "u64::MAX");
    }


    // (d) the archived form: serialise with rkyv, view the archive, cast back
    #[cfg(feature = "rkyv")]
    #[kani::proof]
    #[kani::unwind(10)]
    fn c10_archive_roundtrip() {
        use rkyv::ser::serializers::AlignedSerializer;
        use rkyv::ser::Serializer;
        use rkyv::AlignedVec;
        let (s, f, c, n) = any_fields();
        let ts = HLCTimestamp::new(Duration::new(s as u64, f as u32 * 4_000_000), c, n);
        let mut ser = AlignedSerializer::new(AlignedVec::new());
        match ser.serialize_value(&ts) {
            Ok(_) => {},
            Err(_) => {
                assert!(false, "serialising a timestamp cannot fail");
                return;
            },
        }
        let bytes = ser.into_inner();
        assert!(bytes.len() == 8, "the archive of a timestamp is its 8-byte packed form");
        let archived = unsafe { rkyv::archived_root::<HLCTimestamp>(&bytes[..]) };
        assert!(archived.cast() == ts, "archived form casts back to the same timestamp");
        assert!(archived.cast().as_u64() == ts.as_u64());
        // little-endian packed u64 (feature archive_le)
        let mut raw = [0u8; 8];
        raw.copy_from_slice(&bytes[..]);
        assert!(u64::from_le_bytes(raw) == ts.as_u64());
        kani::cover!(n == 255 && c == 0xFFFF, "extreme fields archived");
        std::mem::forget(bytes);
    }

    // ------------------------------------------------------------------ parsing
    //
    // The numeric kernel of from_str, driven through the real splitn on a concrete 4-field
    // string, with the std integer parsers replaced by "returns an arbitrary value of its
    // type or an error": decides no-panic for *every* combination of parsed field values.
    // In the native replay build (feature verif_replay) the same kani::any() sequence is
    // printed into a string instead and handed to the real parsers.
    #[cfg(not(feature = "verif_replay"))]
    mod kernel {
        use super::super::*;

        fn perr() -> std::num::ParseIntError {
            match u8::from_str_radix("", 10) {
                Err(e) => e,
                Ok(_) => unreachable!(),
            }
        }

        // unique magic initial values: see the note on static aliasing in verif_env
        static mut PARSED: [u64; 4] =
            [0xA5A5_1001_5EED_0001, 0xA5A5_1002_5EED_0002, 0xA5A5_1003_5EED_0003, 0xA5A5_1004_5EED_0004];
        const IDX_BASE: u64 = 0xA5A5_1000_5EED_0000;
        static mut PARSE_IDX: u64 = IDX_BASE;

        fn next_slot(v: u64) {
            unsafe {
                let i = PARSE_IDX - IDX_BASE;
                if i == 0 {
                    PARSED[0] = v
                } else if i == 1 {
                    PARSED[1] = v
                } else if i == 2 {
                    PARSED[2] = v
                } else if i == 3 {
                    PARSED[3] = v
                }
                PARSE_IDX += 1;
            }
        }

        pub fn any_u64_parse(_s: &str) -> Result<u64, std::num::ParseIntError> {
            if kani::any() {
                let v: u64 = kani::any();
                next_slot(v);
                Ok(v)
            } else {
                Err(perr())
            }
        }
        pub fn any_u8_parse(_s: &str) -> Result<u8, std::num::ParseIntError> {
            if kani::any() {
                let v: u8 = kani::any();
                next_slot(v as u64);
                Ok(v)
            } else {
                Err(perr())
            }
        }
        pub fn any_u16_radix(_s: &str, _r: u32) -> Result<u16, std::num::ParseIntError> {
            if kani::any() {
                let v: u16 = kani::any();
                next_slot(v as u64);
                Ok(v)
            } else {
                Err(perr())
            }
        }

        pub fn run() -> (Result<HLCTimestamp, InvalidFormat>, [u64; 4], u64) {
            let r = HLCTimestamp::from_str("1-2-3-4");
            (r, unsafe { PARSED }, unsafe { PARSE_IDX - IDX_BASE })
        }
    }

    #[cfg(feature = "verif_replay")]
    mod kernel {
        use super::super::*;

        pub fn run() -> (Result<HLCTimestamp, InvalidFormat>, [u64; 4], u64) {
            let mut p = [0u64; 4];
            let mut n = 0u64;
            let mut text = String::new();
            let mut alive = true;
            for i in 0..4 {
                if i > 0 {
                    text.push('-');
                }
                if alive && kani::any::<bool>() {
                    let v: u64 = match i {
                        0 => kani::any::<u64>(),
                        2 => kani::any::<u16>() as u64,
                        _ => kani::any::<u8>() as u64,
                    };
                    p[i] = v;
                    n += 1;
                    if i == 2 {
                        text.push_str(&format!("{:X}", v));
                    } else {
                        text.push_str(&format!("{}", v));
                    }
                } else {
                    alive = false;
                    text.push('x');
                }
            }
            (HLCTimestamp::from_str(&text), p, n)
        }
    }

    #[kani::proof]
    #[kani::unwind(12)]
    #[cfg_attr(not(feature = "verif_replay"), kani::stub(<u64 as std::str::FromStr>::from_str, kernel::any_u64_parse))]
    #[cfg_attr(not(feature = "verif_replay"), kani::stub(<u8 as std::str::FromStr>::from_str, kernel::any_u8_parse))]
    #[cfg_attr(not(feature = "verif_replay"), kani::stub(u16::from_str_radix, kernel::any_u16_radix))]
    fn c10_parse_kernel_all_values() {
        let (r, p, n) = kernel::run();
        if n == 4 && p[0] <= TIMESTAMP_MAX && p[1] < 250 {
            assert!(r.is_ok(), "four parsed fields with in-range values are accepted");
        }
        if let Ok(ts) = r {
            assert!(n == 4);
            // a successfully parsed stamp carries exactly the parsed field values
            assert!(
                ts.seconds() == p[0] && ts.fractional() as u64 == p[1] && ts.counter() as u64 == p[2] && ts.node() as u64 == p[3],
                "parsed stamp carries the parsed fields"
            );
            kani::cover!(ts.seconds() == TIMESTAMP_MAX && ts.fractional() == 249, "largest valid time parsed");
        } else {
            kani::cover!(n < 4, "a field failed to parse: refused");
        }
    }

    // ---- real parsers on mostly-concrete text: 1-2 symbolic characters placed on each boundary
    //
    // core's memchr switches to a word-at-a-time scan with pointer-alignment arithmetic for
    // haystacks of 16 bytes and more, which CBMC cannot digest even for concrete text (no
    // result in 10 min); it is replaced by the byte loop it is specified to be equivalent to.
    pub fn naive_memchr(x: u8, text: &[u8]) -> Option<usize> {
        let mut i = 0;
        while i < text.len() {
            if text[i] == x {
                return Some(i);
            }
            i += 1;
        }
        None
    }
    fn digit() -> u8 {
        let d: u8 = kani::any();
        kani::assume(d >= b'0' && d <= b'9');
        d
    }

    fn hexdigit() -> u8 {
        let d: u8 = kani::any();
        kani::assume((d >= b'0' && d <= b'9') || (d >= b'A' && d <= b'F') || (d >= b'a' && d <= b'f'));
        d
    }

    /// parse must return (not panic); if it returns Ok the stamp is valid and printing it
    /// gives back text that parses to the same stamp's fields.
    fn parse_total(bytes: &[u8]) -> Option<HLCTimestamp> {
        let s = unsafe { std::str::from_utf8_unchecked(bytes) };
        match HLCTimestamp::from_str(s) {
            Ok(ts) => {
                assert!(ts.seconds() <= TIMESTAMP_MAX);
                Some(ts)
            },
            Err(_) => None,
        }
    }

    // seconds across 2^32: 4294967200..=4294967299, neighbours at their maxima
    #[kani::proof]
    #[kani::unwind(34)]
    #[kani::stub(core::slice::memchr::memchr, naive_memchr)]
    fn c10_parse_seconds_2p32() {
        let mut b = *b"42949672dd-249-FFFF-255";
        b[8] = digit();
        b[9] = digit();
        let r = parse_total(&b);
        let v = 4294967200u64 + ((b[8] - b'0') as u64) * 10 + (b[9] - b'0') as u64;
        assert!(r.is_some() == (v <= TIMESTAMP_MAX), "seconds up to 2^32-1 parse, larger values are refused");
        if let Some(ts) = r {
            let kept = ts.seconds() == v && ts.fractional() == 249 && ts.counter() == 0xFFFF && ts.node() == 255;
            assert!(kept, "the parsed stamp carries the printed fields");
        }
        kani::cover!(v == TIMESTAMP_MAX && r.is_some(), "2^32-1 accepted");
        kani::cover!(v == TIMESTAMP_MAX + 1 && r.is_none(), "2^32 refused");
    }

    // seconds across 2^64: 18446744073709551610..=19 (u64::MAX = ...615) with a non-zero fraction
    #[kani::proof]
    #[kani::unwind(34)]
    #[kani::stub(core::slice::memchr::memchr, naive_memchr)]
    fn c10_parse_seconds_2p64() {
        let mut b = *b"1844674407370955161d-1-0-0";
        b[19] = digit();
        let r = parse_total(&b);
        assert!(r.is_none(), "seconds beyond 32 bits are refused, not a panic");
        kani::cover!(b[19] == b'5', "u64::MAX seconds with a fraction");
        kani::cover!(b[19] == b'6', "one past u64::MAX");
    }

    // fractional 200..=299 across 249/250 and 255/256, seconds at the maximum so a carry would overflow
    #[kani::proof]
    #[kani::unwind(34)]
    #[kani::stub(core::slice::memchr::memchr, naive_memchr)]
    fn c10_parse_fractional_edges() {
        let mut b = *b"4294967295-2dd-0-0";
        b[12] = digit();
        b[13] = digit();
        let r = parse_total(&b);
        let v = 200u64 + ((b[12] - b'0') as u64) * 10 + (b[13] - b'0') as u64;
        if let Some(ts) = r {
            assert!(ts.seconds() == 4294967295 && ts.fractional() as u64 == v, "an accepted fraction is kept as is");
        }
        assert!(r.is_some() == (v < 250), "fractions 0..249 parse, larger ones are refused");
        kani::cover!(v == 249 && r.is_some(), "249 accepted");
        kani::cover!(v == 250 && r.is_none(), "250 refused");
        kani::cover!(v == 256 && r.is_none(), "256 refused");
    }

    // counter: 4 and 5 hex digits
    #[kani::proof]
    #[kani::unwind(34)]
    #[kani::stub(core::slice::memchr::memchr, naive_memchr)]
    fn c10_parse_counter_edges() {
        let mut b = *b"7-8-FFFd-9";
        b[7] = hexdigit();
        let r = parse_total(&b);
        assert!(r.is_some());
        let ts = r.unwrap();
        let kept = ts.counter() >> 4 == 0xFFF && ts.seconds() == 7 && ts.fractional() == 8 && ts.node() == 9;
        assert!(kept, "the parsed stamp carries the printed fields");
        let mut b5 = *b"7-8-1000d-9";
        b5[8] = hexdigit();
        assert!(parse_total(&b5).is_none(), "a counter beyond 16 bits is refused");
        kani::cover!(ts.counter() == 0xFFFF, "0xFFFF accepted");
    }

    // node 250..=259 across 255/256
    #[kani::proof]
    #[kani::unwind(34)]
    #[kani::stub(core::slice::memchr::memchr, naive_memchr)]
    fn c10_parse_node_edges() {
        let mut b = *b"7-8-9-25d";
        b[8] = digit();
        let r = parse_total(&b);
        let v = 250u64 + (b[8] - b'0') as u64;
        assert!(r.is_some() == (v <= 255));
        if let Some(ts) = r {
            assert!(ts.node() as u64 == v && ts.counter() == 9);
        }
        kani::cover!(v == 255 && r.is_some(), "255 accepted");
        kani::cover!(v == 256 && r.is_none(), "256 refused");
    }

    // the longest text Display can produce (25 bytes: 10-digit seconds, zero-padded 4-character fields), node 250..=259
    #[kani::proof]
    #[kani::unwind(34)]
    #[kani::stub(core::slice::memchr::memchr, naive_memchr)]
    fn c10_parse_longest_canonical() {
        let mut b = *b"4294967295-0249-FFFF-025d";
        b[24] = digit();
        let r = parse_total(&b);
        let v = 250u64 + (b[24] - b'0') as u64;
        assert!(r.is_some() == (v <= 255), "the longest canonical text parses exactly when its node field is a u8");
        if let Some(ts) = r {
            let kept = ts.seconds() == TIMESTAMP_MAX && ts.fractional() == 249 && ts.counter() == 0xFFFF && ts.node() as u64 == v;
            assert!(kept, "the parsed stamp carries the printed fields");
        }
        kani::cover!(v == 255 && r.is_some(), "the greatest timestamp's text accepted");
    }

    // structure: missing / empty / extra fields, signs (concrete text)
    #[kani::proof]
    #[kani::unwind(34)]
    #[kani::stub(core::slice::memchr::memchr, naive_memchr)]
    fn c10_parse_structure() {
        assert!(parse_total(b"").is_none());
        assert!(parse_total(b"-").is_none());
        assert!(parse_total(b"1-2-3").is_none());
        assert!(parse_total(b"1--3-4").is_none());
        assert!(parse_total(b"1-2-3-4-5").is_none());
        assert!(parse_total(b"1-2-3-").is_none());
        assert!(parse_total(b"-1-2-3-4").is_none());
        assert!(parse_total(b"1-2-G-4").is_none());
        let ok = parse_total(b"1-0002-000A-0004");
        assert!(ok.is_some());
        let ts = ok.unwrap();
        let kept = ts.seconds() == 1 && ts.fractional() == 2 && ts.counter() == 10 && ts.node() == 4;
        assert!(kept, "padded text parses to its fields");
        kani::cover!(true, "reached");
    }

    // one arbitrary byte at each position of a valid text (separator/sign/garbage injection)
    fn one_arbitrary_byte<const POS: usize>() {
        let mut b = *b"12-34-5A-67";
        let x: u8 = kani::any();
        kani::assume(x < 0x80);
        b[POS] = x;
        let _ = parse_total(&b);
        kani::cover!(x == b'-', "separator injected");
        kani::cover!(x == b'+', "sign injected");
    }

    #[kani::proof]
    #[kani::unwind(34)]
    #[kani::stub(core::slice::memchr::memchr, naive_memchr)]
    fn c10_parse_arbitrary_byte_p0() {
        one_arbitrary_byte::<0>();
    }

    #[kani::proof]
    #[kani::unwind(34)]
    #[kani::stub(core::slice::memchr::memchr, naive_memchr)]
    fn c10_parse_arbitrary_byte_p3() {
        one_arbitrary_byte::<3>();
    }

    #[kani::proof]
    #[kani::unwind(34)]
    #[kani::stub(core::slice::memchr::memchr, naive_memchr)]
    fn c10_parse_arbitrary_byte_p6() {
        one_arbitrary_byte::<6>();
    }

    #[kani::proof]
    #[kani::unwind(34)]
    #[kani::stub(core::slice::memchr::memchr, naive_memchr)]
    fn c10_parse_arbitrary_byte_p10() {
        one_arbitrary_byte::<10>();
    }
    // @@PLAYBACK@@
}

// C12 — RPC frames: exact bytes delivered; damaged or short frames are refused.
// Harness crate with a path dependency on a scratch copy of datacake-rpc (public API only):
// DataView::using, DataView::deserialize_view, to_view_bytes, Status, ErrorCode; real rkyv and
// real crc32fast (portable table-driven path).
#![cfg(kani)]
#![allow(dead_code)]
use datacake_rpc::{to_view_bytes, DataView, ErrorCode, Status};
use rkyv::{AlignedVec, Archive, Deserialize, Serialize};

#[repr(C)]
#[derive(Serialize, Deserialize, Archive, PartialEq, Eq, Debug, Clone, Copy)]
#[archive(compare(PartialEq))]
#[archive_attr(derive(PartialEq, Eq, Debug))]
pub struct Fixed {
    a: u32,
    b: u16,
    c: u16,
}

#[repr(C)]
#[derive(Serialize, Deserialize, Archive, PartialEq, Eq, Debug, Clone)]
#[archive(compare(PartialEq))]
#[archive_attr(derive(PartialEq, Eq, Debug))]
pub struct WithBytes {
    id: u64,
    data: Vec<u8>,
}

const FIXED_ARCHIVE: usize = 8; // size_of::<ArchivedFixed>()
const WITHBYTES_ARCHIVE: usize = 16; // u64 + ArchivedVec { RelPtr<i32>, u32 }

// ---- environment models -------------------------------------------------------------------
/// crc32fast picks a PCLMULQDQ implementation behind cpuid inline asm; the portable
/// table-driven implementation is what gets encoded.
fn no_simd(_init: u32, _amount: u64) -> Option<crc32fast::Hasher> {
    None
}

/// `SharedSerializeMap::new` seeds a HashMap from the OS RNG (getrandom syscall); fixed keys.
fn fixed_state() -> std::collections::hash_map::RandomState {
    unsafe { std::mem::transmute::<(u64, u64), std::collections::hash_map::RandomState>((0x1234, 0x5678)) }
}

// ---- reference model: bitwise CRC-32 (IEEE, reflected, init/xorout 0xFFFFFFFF) -----------
fn crc32_ref(data: &[u8]) -> u32 {
    let mut crc: u32 = 0xFFFF_FFFF;
    let mut i = 0;
    while i < data.len() {
        crc ^= data[i] as u32;
        let mut k = 0;
        while k < 8 {
            let mask = (!(crc & 1)).wrapping_add(1);
            crc = (crc >> 1) ^ (0xEDB8_8320 & mask);
            k += 1;
        }
        i += 1;
    }
    !crc
}

fn frame_from<const L: usize>(bytes: &[u8; L]) -> AlignedVec {
    let mut v = AlignedVec::with_capacity(32);
    v.extend_from_slice(bytes);
    v
}

fn any_fixed() -> Fixed {
    Fixed { a: kani::any(), b: kani::any(), c: kani::any() }
}

// ---- (a) short frames: every byte string shorter than archive + trailer is refused ----------
fn short_frame_fixed<const L: usize>() {
    let bytes: [u8; L] = kani::any();
    let r = DataView::<Fixed>::using(frame_from(&bytes));
    assert!(r.is_err(), "a frame shorter than the fixed-size part plus the trailer is refused");
    let mut t = [0u8; 4];
    t.copy_from_slice(&bytes[L - 4..]);
    kani::cover!(crc32_ref(&bytes[..L - 4]) == u32::from_le_bytes(t), "short frame with a *matching* checksum");
    std::mem::forget(r);
}

fn tiny_frame_fixed<const L: usize>() {
    let bytes: [u8; L] = kani::any();
    let r = DataView::<Fixed>::using(frame_from(&bytes));
    assert!(r.is_err(), "a frame shorter than the trailer is refused");
    kani::cover!(true, "shorter than the trailer");
    std::mem::forget(r);
}

fn short_frame_withbytes<const L: usize>() {
    let bytes: [u8; L] = kani::any();
    let r = DataView::<WithBytes>::using(frame_from(&bytes));
    assert!(r.is_err(), "a frame shorter than the fixed-size part plus the trailer is refused");
    kani::cover!(true, "reached");
    std::mem::forget(r);
}

macro_rules! short_harness {
    ($name:ident, $f:ident, $($l:literal),+) => {
        #[kani::proof]
        #[kani::unwind(34)]
        #[kani::stub(crc32fast::Hasher::internal_new_specialized, no_simd)]
        fn $name() {
            $( $f::<$l>(); )+
        }
    };
}

short_harness!(c12_short_fixed_len_0_3, tiny_frame_fixed, 0, 1, 2, 3);
short_harness!(c12_short_fixed_len_4_7, short_frame_fixed, 4, 5, 6, 7);
short_harness!(c12_short_fixed_len_8_11, short_frame_fixed, 8, 9, 10, 11);
short_harness!(c12_short_withbytes_len_4_12, short_frame_withbytes, 4, 8, 12);
short_harness!(c12_short_withbytes_len_16_19, short_frame_withbytes, 16, 19);
short_harness!(c12_short_status_len_4_11, short_frame_status, 4, 11);

fn short_frame_status<const L: usize>() {
    let bytes: [u8; L] = kani::any();
    let r = DataView::<Status>::using(frame_from(&bytes));
    assert!(r.is_err(), "a frame shorter than the fixed-size part plus the trailer is refused");
    kani::cover!(true, "reached");
    std::mem::forget(r);
}

// ---- exactness: using() accepts an arbitrary 12-byte frame iff its trailer is the CRC-32 of its
//      body, and then shows exactly the little-endian fields (differential against crc32_ref)
#[kani::proof]
#[kani::unwind(34)]
#[kani::stub(crc32fast::Hasher::internal_new_specialized, no_simd)]
fn c12_fixed_accept_iff_checksum() {
    let bytes: [u8; 12] = kani::any();
    let mut t = [0u8; 4];
    t.copy_from_slice(&bytes[8..]);
    let good = crc32_ref(&bytes[..8]) == u32::from_le_bytes(t);
    let r = DataView::<Fixed>::using(frame_from(&bytes));
    assert!(r.is_ok() == good, "a frame is accepted exactly when its trailer matches its body");
    if let Ok(view) = &r {
        assert!(view.a == u32::from_le_bytes([bytes[0], bytes[1], bytes[2], bytes[3]]));
        assert!(view.b == u16::from_le_bytes([bytes[4], bytes[5]]));
        assert!(view.c == u16::from_le_bytes([bytes[6], bytes[7]]));
        assert!(view.as_bytes().len() == 12);
    }
    kani::cover!(good, "accepted frame");
    kani::cover!(!good, "refused frame");
    std::mem::forget(r);
}

// ---- (d) round trip: what the sender serialises is what the receiver sees ---------------------
#[kani::proof]
#[kani::unwind(34)]
#[kani::stub(crc32fast::Hasher::internal_new_specialized, no_simd)]
#[kani::stub(std::collections::hash_map::RandomState::new, fixed_state)]
fn c12_fixed_roundtrip() {
    let v = any_fixed();
    let bytes = match to_view_bytes(&v) {
        Ok(b) => b,
        Err(_) => {
            assert!(false, "serialising a fixed-size message cannot fail");
            return;
        },
    };
    let n = bytes.len();
    assert!(n >= FIXED_ARCHIVE + 4 && n <= 32);
    let mut t = [0u8; 4];
    t.copy_from_slice(&bytes[n - 4..]);
    assert!(crc32_ref(&bytes[..n - 4]) == u32::from_le_bytes(t), "trailer is the CRC-32 of the body");
    let view = match DataView::<Fixed>::using(bytes) {
        Ok(view) => view,
        Err(_) => {
            assert!(false, "a frame produced by to_view_bytes is accepted");
            return;
        },
    };
    assert!(view == v, "the view equals the value sent");
    assert!(view.a == v.a && view.b == v.b && view.c == v.c);
    match view.deserialize_view() {
        Ok(back) => assert!(back == v, "the deserialised value equals the value sent"),
        Err(_) => assert!(false, "deserialising an accepted frame cannot fail"),
    }
    kani::cover!(v.a == u32::MAX && v.c == 0, "sample value");
    std::mem::forget(view);
}

// ---- (b) every single-bit corruption of a valid frame is refused -------------------------------
#[kani::proof]
#[kani::unwind(34)]
#[kani::stub(crc32fast::Hasher::internal_new_specialized, no_simd)]
#[kani::stub(std::collections::hash_map::RandomState::new, fixed_state)]
fn c12_fixed_bitflip_refused() {
    let v = any_fixed();
    let frame = match to_view_bytes(&v) {
        Ok(b) => b,
        Err(_) => return,
    };
    let mut bytes = [0u8; 12];
    bytes.copy_from_slice(&frame[..]);
    let k: usize = kani::any();
    let j: u8 = kani::any();
    kani::assume(k < 12 && j < 8);
    bytes[k] ^= 1u8 << j;
    let r = DataView::<Fixed>::using(frame_from(&bytes));
    assert!(r.is_err(), "a frame with one flipped bit is refused");
    kani::cover!(k < 8, "flip in the body");
    kani::cover!(k >= 8, "flip in the trailer");
    std::mem::forget(r);
    std::mem::forget(frame);
}

// ---- (c) truncations / extensions of a valid frame: accepted only if the checksum still matches,
//      and never below the fixed size
fn truncated<const KEEP: usize>(frame: &[u8]) {
    let mut bytes = [0u8; KEEP];
    bytes.copy_from_slice(&frame[..KEEP]);
    let r = DataView::<Fixed>::using(frame_from(&bytes));
    assert!(r.is_err(), "a truncated fixed-size frame is refused");
    std::mem::forget(r);
}

#[kani::proof]
#[kani::unwind(34)]
#[kani::stub(crc32fast::Hasher::internal_new_specialized, no_simd)]
#[kani::stub(std::collections::hash_map::RandomState::new, fixed_state)]
fn c12_fixed_truncation_refused() {
    let v = any_fixed();
    let frame = match to_view_bytes(&v) {
        Ok(b) => b,
        Err(_) => return,
    };
    truncated::<11>(&frame);
    truncated::<10>(&frame);
    truncated::<8>(&frame);
    truncated::<5>(&frame);
    truncated::<4>(&frame);
    truncated::<1>(&frame);
    kani::cover!(true, "reached");
    std::mem::forget(frame);
}

// ---- variable-size message: bytes payload of length N (0..=3) --------------------------------
fn withbytes_roundtrip<const N: usize>() {
    let payload: [u8; N] = kani::any();
    let v = WithBytes { id: kani::any(), data: payload.to_vec() };
    let bytes = match to_view_bytes(&v) {
        Ok(b) => b,
        Err(_) => {
            assert!(false, "serialisation cannot fail");
            return;
        },
    };
    assert!(bytes.len() >= WITHBYTES_ARCHIVE + 4);
    let view = match DataView::<WithBytes>::using(bytes) {
        Ok(view) => view,
        Err(_) => {
            assert!(false, "a frame produced by to_view_bytes is accepted");
            return;
        },
    };
    assert!(view.id == v.id, "id survives");
    assert!(view.data.len() == N, "payload length survives");
    let mut i = 0;
    while i < N {
        assert!(view.data[i] == payload[i], "payload bytes survive");
        i += 1;
    }
    match view.deserialize_view() {
        Ok(back) => {
            assert!(back.id == v.id && back.data.len() == N);
            let mut i = 0;
            while i < N {
                assert!(back.data[i] == payload[i]);
                i += 1;
            }
            std::mem::forget(back);
        },
        Err(_) => assert!(false, "deserialising an accepted frame cannot fail"),
    }
    kani::cover!(true, "reached");
    std::mem::forget(view);
    std::mem::forget(v);
}

#[kani::proof]
#[kani::unwind(34)]
#[kani::stub(crc32fast::Hasher::internal_new_specialized, no_simd)]
#[kani::stub(std::collections::hash_map::RandomState::new, fixed_state)]
fn c12_withbytes_roundtrip_len0() {
    withbytes_roundtrip::<0>();
}

#[kani::proof]
#[kani::unwind(34)]
#[kani::stub(crc32fast::Hasher::internal_new_specialized, no_simd)]
#[kani::stub(std::collections::hash_map::RandomState::new, fixed_state)]
fn c12_withbytes_roundtrip_len1() {
    withbytes_roundtrip::<1>();
}

// ---- handler errors: a Status reaches the client with the same code and message ----------------
fn any_code() -> ErrorCode {
    let k: u8 = kani::any();
    kani::assume(k < 5);
    match k {
        0 => ErrorCode::ServiceUnavailable,
        1 => ErrorCode::InternalError,
        2 => ErrorCode::InvalidPayload,
        3 => ErrorCode::ConnectionError,
        _ => ErrorCode::Timeout,
    }
}

fn status_roundtrip<const N: usize>() {
    let mut text = [0u8; N];
    let mut i = 0;
    while i < N {
        let b: u8 = kani::any();
        kani::assume(b >= 0x20 && b < 0x7F);
        text[i] = b;
        i += 1;
    }
    let message = unsafe { String::from_utf8_unchecked(text.to_vec()) };
    let code = any_code();
    let code_copy = match code {
        ErrorCode::ServiceUnavailable => ErrorCode::ServiceUnavailable,
        ErrorCode::InternalError => ErrorCode::InternalError,
        ErrorCode::InvalidPayload => ErrorCode::InvalidPayload,
        ErrorCode::ConnectionError => ErrorCode::ConnectionError,
        ErrorCode::Timeout => ErrorCode::Timeout,
    };
    let status = Status { code, message };
    let bytes = match to_view_bytes(&status) {
        Ok(b) => b,
        Err(_) => {
            assert!(false, "serialisation cannot fail");
            return;
        },
    };
    let view = match DataView::<Status>::using(bytes) {
        Ok(view) => view,
        Err(_) => {
            assert!(false, "a frame produced by to_view_bytes is accepted");
            return;
        },
    };
    assert!(view.code == code_copy, "error code survives");
    assert!(view.message.as_bytes().len() == N);
    let mut i = 0;
    while i < N {
        assert!(view.message.as_bytes()[i] == text[i], "message survives");
        i += 1;
    }
    match view.deserialize_view() {
        Ok(back) => {
            assert!(back.code == code_copy);
            assert!(back.message.len() == N);
            let mut i = 0;
            while i < N {
                assert!(back.message.as_bytes()[i] == text[i]);
                i += 1;
            }
            std::mem::forget(back);
        },
        Err(_) => assert!(false, "deserialising an accepted frame cannot fail"),
    }
    kani::cover!(true, "reached");
    std::mem::forget(view);
    std::mem::forget(status);
}

#[kani::proof]
#[kani::unwind(34)]
#[kani::stub(crc32fast::Hasher::internal_new_specialized, no_simd)]
#[kani::stub(std::collections::hash_map::RandomState::new, fixed_state)]
fn c12_status_roundtrip_len0() {
    status_roundtrip::<0>();
}

#[kani::proof]
#[kani::unwind(34)]
#[kani::stub(crc32fast::Hasher::internal_new_specialized, no_simd)]
#[kani::stub(std::collections::hash_map::RandomState::new, fixed_state)]
fn c12_status_roundtrip_len4() {
    status_roundtrip::<4>();
}

// ---- small message types whose archive is not a multiple of 4 bytes (alignment 1 and 2): the
//      receiver must still see exactly the value sent (nothing may be padded in before the trailer)
#[repr(C)]
#[derive(Serialize, Deserialize, Archive, PartialEq, Eq, Debug, Clone, Copy)]
#[archive(compare(PartialEq))]
#[archive_attr(derive(PartialEq, Eq, Debug))]
pub struct Rgb {
    r: u8,
    g: u8,
    b: u8,
}

#[repr(C)]
#[derive(Serialize, Deserialize, Archive, PartialEq, Eq, Debug, Clone, Copy)]
#[archive(compare(PartialEq))]
#[archive_attr(derive(PartialEq, Eq, Debug))]
pub struct Pair16 {
    x: u16,
    y: u16,
    z: u16,
}

#[kani::proof]
#[kani::unwind(34)]
#[kani::stub(crc32fast::Hasher::internal_new_specialized, no_simd)]
#[kani::stub(std::collections::hash_map::RandomState::new, fixed_state)]
fn c12_small_types_roundtrip() {
    let v = Rgb { r: kani::any(), g: kani::any(), b: kani::any() };
    match to_view_bytes(&v) {
        Ok(bytes) => {
            match DataView::<Rgb>::using(bytes) {
                Ok(view) => {
                    assert!(view.r == v.r && view.g == v.g && view.b == v.b, "3-byte message arrives unchanged");
                    std::mem::forget(view);
                },
                Err(_) => assert!(false, "a frame produced by to_view_bytes is accepted"),
            }
        },
        Err(_) => assert!(false),
    }
    let w = Pair16 { x: kani::any(), y: kani::any(), z: kani::any() };
    match to_view_bytes(&w) {
        Ok(bytes) => {
            match DataView::<Pair16>::using(bytes) {
                Ok(view) => {
                    assert!(view.x == w.x && view.y == w.y && view.z == w.z, "6-byte message arrives unchanged");
                    std::mem::forget(view);
                },
                Err(_) => assert!(false, "a frame produced by to_view_bytes is accepted"),
            }
        },
        Err(_) => assert!(false),
    }
    let code = any_code();
    let k = match code {
        ErrorCode::ServiceUnavailable => 0u8,
        ErrorCode::InternalError => 1,
        ErrorCode::InvalidPayload => 2,
        ErrorCode::ConnectionError => 3,
        ErrorCode::Timeout => 4,
    };
    match to_view_bytes(&code) {
        Ok(bytes) => match DataView::<ErrorCode>::using(bytes) {
            Ok(view) => {
                let back = match view.deserialize_view() {
                    Ok(ErrorCode::ServiceUnavailable) => 0u8,
                    Ok(ErrorCode::InternalError) => 1,
                    Ok(ErrorCode::InvalidPayload) => 2,
                    Ok(ErrorCode::ConnectionError) => 3,
                    Ok(ErrorCode::Timeout) => 4,
                    Err(_) => 9,
                };
                assert!(back == k, "a bare error code arrives unchanged");
                std::mem::forget(view);
            },
            Err(_) => assert!(false),
        },
        Err(_) => assert!(false),
    }
    kani::cover!(k == 4, "last error code");
}

// ---- large frames (receiver side): a body of BIG concrete zero bytes followed by a symbolic
//      16-byte fixed part and a symbolic trailer.  The whole body must be covered by the checksum:
//      a frame and the same frame with one bit flipped in its last 20 bytes are never both accepted.
//      (The sender side is not run here: rkyv serialises a byte payload element by element, two
//      loops of BIG iterations, which is outside what the unwinder reaches.)
const BIG: usize = 5000;

fn big_frame(tail: &[u8; 20]) -> AlignedVec {
    let zeros = [0u8; BIG];
    let mut v = AlignedVec::with_capacity(BIG + 32);
    v.extend_from_slice(&zeros);
    v.extend_from_slice(tail);
    v
}

#[kani::proof]
#[kani::unwind(90)]
#[kani::stub(crc32fast::Hasher::internal_new_specialized, no_simd)]
fn c12_large_frame_tail_protected() {
    let tail: [u8; 20] = kani::any();
    let mut flipped = tail;
    let k: usize = kani::any();
    let j: u8 = kani::any();
    kani::assume(k < 20 && j < 8);
    flipped[k] ^= 1u8 << j;
    let a = DataView::<WithBytes>::using(big_frame(&tail));
    let b = DataView::<WithBytes>::using(big_frame(&flipped));
    assert!(!(a.is_ok() && b.is_ok()), "a large frame and its single-bit corruption are never both accepted");
    kani::cover!(a.is_ok(), "some large frame is accepted");
    kani::cover!(b.is_ok() && k < 16, "accepted frame whose neighbour differs in the fixed part");
    std::mem::forget(a);
    std::mem::forget(b);
}
// @@PLAYBACK@@

// C09 — hybrid clock: unique, strictly increasing, causal, drift-bounded, errors leave the clock alone.
// Appended to a verbatim copy of datacake-crdt/src/timestamp.rs (child module: private items reachable).
#[cfg(kani)]
pub(crate) mod verif_env {
    use std::time::Duration;

    // Last wall-clock reading handed out, packed as (seconds << 8) | 4ms-fraction, and the call count.
    // NOTE: Kani 0.68 aliases a `static mut` with any constant allocation that has the same initial
    // bytes (observed: a zero-initialised counter aliased core's `Nanoseconds::ZERO`), so these
    // carry unique magic initial values and nothing ever relies on them.
    pub const CALLS_BASE: u64 = 0xA5A5_0002_5EED_0002;
    pub static mut LAST_WALL: u64 = 0xA5A5_0001_5EED_0001;
    pub static mut WALL_CALLS: u64 = CALLS_BASE;

    pub fn last_wall() -> (u32, u8) {
        let v = unsafe { LAST_WALL };
        ((v >> 8) as u32, (v & 0xFF) as u8)
    }

    pub fn wall_calls() -> u64 {
        unsafe { WALL_CALLS - CALLS_BASE }
    }

    /// Environment model for `get_datacake_timestamp`: an arbitrary reading on every call
    /// (stalls and backward jumps included), 4 ms granularity, seconds since 2023 fit 32 bits.
    /// Division-free.
    pub fn wall() -> Duration {
        let s: u32 = kani::any();
        let f: u8 = kani::any();
        kani::assume(f < 250);
        unsafe {
            LAST_WALL = ((s as u64) << 8) | f as u64;
            WALL_CALLS += 1;
        }
        Duration::new(s as u64, (f as u32) * 4_000_000)
    }
}

#[cfg(kani)]
mod verif_c09 {
    use super::verif_env::{last_wall, wall, wall_calls};
    use super::*;

    fn any_valid() -> HLCTimestamp {
        let v: u64 = kani::any();
        let t = HLCTimestamp::from_u64(v);
        kani::assume(t.fractional() < 250);
        t
    }

    /// `t` is at most MAX_CLOCK_DRIFT (4100 s) ahead of the last wall reading; packed-domain compare.
    fn within_drift(t: HLCTimestamp) -> bool {
        let (ws, wf) = last_wall();
        let lim = ws as u64 + 4_100;
        t.seconds() < lim || (t.seconds() == lim && t.fractional() <= wf)
    }

    fn time_of(t: HLCTimestamp) -> (u64, u8) {
        (t.seconds(), t.fractional())
    }

    // ---- inductive step: send from an arbitrary valid clock under an arbitrary wall clock
    #[kani::proof]
    #[kani::stub(get_datacake_timestamp, wall)]
    fn c09_send_step() {
        let mut clock = any_valid();
        let before = clock;
        let r = clock.send();
        let (ws, wf) = last_wall();
        match &r {
            Ok(t) => {
                let t = *t;
                assert!(t > before, "issued stamp must exceed everything the clock held before");
                assert!(t == clock, "clock holds the stamp it issued");
                assert!(t.node() == before.node(), "stamp carries the clock's node id");
                assert!(t.fractional() < 250, "issued stamp is valid");
                assert!(within_drift(t), "issued stamp is never more than the permitted drift ahead of the wall clock");
                // time part is max(old, wall)
                let w = (ws as u64, wf);
                let exp = if time_of(before) >= w { time_of(before) } else { w };
                assert!(time_of(t) == exp);
                kani::cover!(t.counter() > 0 && time_of(before) > w, "wall clock behind: counter path");
                kani::cover!(t.counter() == 0, "wall clock ahead: counter reset");
            },
            Err(e) => {
                assert!(clock == before, "a failed send leaves the clock unchanged");
                match *e {
                    TimestampError::Overflow => {
                        assert!(before.counter() == u16::MAX);
                        kani::cover!(true, "counter exhausted");
                    },
                    TimestampError::ClockDrift => {
                        assert!(!within_drift(before));
                        kani::cover!(true, "clock too far ahead of wall clock");
                    },
                    TimestampError::DuplicatedNode(_) => assert!(false, "send never reports a duplicated node"),
                }
            },
        }
        // a request that can be satisfied is satisfied
        if within_drift(before) && before.counter() < u16::MAX {
            assert!(r.is_ok());
        }
        assert!(wall_calls() == 1);
    }

    // ---- inductive step: recv of an arbitrary valid remote stamp
    #[kani::proof]
    #[kani::stub(get_datacake_timestamp, wall)]
    fn c09_recv_step() {
        let mut clock = any_valid();
        let msg = any_valid();
        let before = clock;
        let r = clock.recv(&msg);
        match &r {
            Ok(ret) => {
                let ret = *ret;
                assert!(clock > before, "accepting a remote stamp advances the clock");
                assert!((time_of(clock), clock.counter()) > (time_of(msg), msg.counter()),
                        "clock is after the accepted stamp in (time, counter), so everything it issues later is too");
                assert!(clock.node() == before.node(), "node id is unchanged");
                assert!(clock.fractional() < 250);
                assert!(within_drift(clock), "clock never runs more than the drift ahead of the wall clock");
                assert!(msg.node() != before.node());
                let same = ret.node() == msg.node() && time_of(ret) == time_of(clock) && ret.counter() == clock.counter();
                assert!(same, "recv returns the clock's new time and counter with the sender's node id");
                kani::cover!(time_of(clock) == time_of(msg) && time_of(msg) > time_of(before), "remote time adopted");
                kani::cover!(time_of(clock) == time_of(before) && time_of(before) == time_of(msg), "three-way tie: max counter + 1");
                kani::cover!(clock.counter() == 0, "wall clock newest: counter reset");
            },
            Err(e) => {
                assert!(clock == before, "a failed recv leaves the clock unchanged");
                match *e {
                    TimestampError::DuplicatedNode(n) => {
                        assert!(n == msg.node() && msg.node() == before.node());
                        kani::cover!(true, "same node id refused");
                    },
                    TimestampError::ClockDrift => {
                        assert!(!within_drift(msg) || !within_drift(before));
                        kani::cover!(!within_drift(msg), "remote too far ahead refused");
                    },
                    TimestampError::Overflow => {
                        assert!(before.counter() == u16::MAX || msg.counter() == u16::MAX);
                        kani::cover!(true, "counter exhausted refused");
                    },
                }
            },
        }
        if msg.node() == before.node() {
            assert!(r.is_err(), "a stamp carrying the clock's own node id is refused");
        }
        if msg.node() != before.node() && !within_drift(msg) {
            assert!(matches!(r, Err(TimestampError::ClockDrift)), "a stamp beyond the drift is refused");
        }
        if msg.node() != before.node() && within_drift(msg) && within_drift(before)
            && before.counter() < u16::MAX && msg.counter() < u16::MAX {
            assert!(r.is_ok(), "a satisfiable request succeeds");
        }
    }

    // ---- history: k calls, each send or recv(arbitrary), independent arbitrary wall clock per call
    fn history<const K: usize>() {
        let mut clock = any_valid();
        // greatest stamp issued or accepted so far
        let mut seen: Option<HLCTimestamp> = None;
        let mut sends = 0u32;
        let mut i = 0;
        while i < K {
            let before = clock;
            if kani::any() {
                if let Ok(t) = clock.send() {
                    if let Some(s) = seen {
                        assert!(t > s, "issued stamp exceeds every stamp issued or accepted before");
                    }
                    assert!(t.node() == before.node());
                    seen = Some(t);
                    sends += 1;
                } else {
                    assert!(clock == before);
                }
            } else {
                let msg = any_valid();
                if clock.recv(&msg).is_ok() {
                    // for comparison with later *own* stamps only the (time, counter) part matters:
                    // everything issued later must be newer in time or counter.
                    let m = HLCTimestamp::from_u64((msg.as_u64() & !0xFF) | 0xFF);
                    seen = Some(match seen { Some(s) if s > m => s, _ => m });
                    assert!(clock > msg);
                } else {
                    assert!(clock == before);
                }
            }
            i += 1;
        }
        kani::cover!(sends >= 2, "two stamps issued in one history");
    }

    #[kani::proof]
    #[kani::unwind(4)]
    #[kani::stub(get_datacake_timestamp, wall)]
    fn c09_history_k3() {
        history::<3>();
    }

    #[kani::proof]
    #[kani::unwind(6)]
    #[kani::stub(get_datacake_timestamp, wall)]
    fn c09_history_k5() {
        history::<5>();
    }
    // @@PLAYBACK@@
}

#!/usr/bin/env python3
"""tools/seed_store.py <seed_id> <property> <src_dir> <caught:yes|no> "<needs>" "<what ran>" [detected_by]
Copies a confirmed seeded change into /verif/seeded/<seed_id>/ and writes meta.json."""
import json, os, shutil, sys
sid, prop, src, caught, needs, ran = sys.argv[1:7]
detected = sys.argv[7] if len(sys.argv) > 7 else ""
dst = os.path.join("/verif/seeded", sid)
os.makedirs(dst, exist_ok=True)
for fn in os.listdir(src):
    p = os.path.join(src, fn)
    if os.path.isdir(p):
        shutil.copytree(p, os.path.join(dst, fn), dirs_exist_ok=True, ignore=shutil.ignore_patterns("target"))
    else:
        shutil.copy(p, os.path.join(dst, fn))
meta = {"seed_id": sid, "property": prop, "needs_to_manifest": needs, "confirmed": ran,
        "caught_by_check": caught == "yes", "detected_by": detected,
        "origin": "independent sub-agent given only the property text and a scratch worktree"}
for fn in ("meta.txt", "README.txt"):
    try:
        meta["description"] = open(os.path.join(src, fn)).read()
        break
    except Exception:
        pass
json.dump(meta, open(os.path.join(dst, "meta.json"), "w"), indent=1)
print("stored", dst)

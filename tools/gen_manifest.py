#!/usr/bin/env python3
"""Regenerates /verif/MANIFEST.json from the plan modules (plans/cXX.py: MANIFEST dict) and the
not-applicable table below.  Hand-run after adding or changing a check; the result is committed."""
import importlib
import json
import os
import subprocess
import sys

HERE = os.path.dirname(os.path.dirname(os.path.abspath(__file__)))
sys.path.insert(0, HERE)
sys.path.insert(0, os.path.join(HERE, "lib"))

ALL = ["C%02d" % i for i in range(1, 20)]

NOT_APPLICABLE = {
    "C01": "cluster-level convergence over message loss/reordering and repair schedules runs through tokio tasks, hyper and chitchat; none of it compiles under Kani (ICE on catch_unwind) and it has no bounded function-level kernel beyond what C02/C03/C04/C05 decide",
    "C06": "the acknowledgement-counting loop is a private generic async fn over FuturesUnordered fed by RPC client futures; it pulls the networking stack into reachability (Kani ICE); the required-count half is decided under C15",
    "C07": "the rebuild kernel is the inline body of KeyspaceGroup::load_states_from_storage (Instant::now, BTreeMap<Cow<str>,_>, parking_lot maps, tokio-spawning constructor); its result is only observable through a map of actor mailboxes that load_states builds by spawning puppet actors on tokio (Kani ICE on the runtime), and the loop cannot be called apart from that; extracting it by hand would verify a transcription. Its halves are partly decided by C04 (replay into the empty set in any order) and C02 (store never behind the set)",
    "C11": "a property of schedules of a tokio actor and channel; Kani does not model concurrency (the sequential kernel is C09)",
    "C13": "registry maps hold heap String keys and Arc<dyn Handler>; CBMC did not finish the smallest instance (2 services, 3 steps) in 8-15 min in three formulations, and the property has no symbolic data to quantify over",
    "C14": "turmoil simulation + HTTP/2: schedule space of an I/O runtime, no function-level kernel to encode",
    "C16": "the set-difference logic is inline in an async fn driven by tokio watch channels and the RPC network; inseparable from the runtime (Kani ICE)",
    "C17": "SQLite and LMDB are C libraries behind FFI and reopen is file I/O; nothing to execute symbolically",
    "C18": "an interleaving property across two await points and a lock; add_state spawns a puppet actor on tokio (Kani ICE); a shimmed version would verify the shim",
    "C19": "depends on rkyv's archived std BTreeMap/HashMap (hash-index construction) and on runtime pointer alignment of a nested buffer; outside what CBMC finishes (std containers) or models (allocator alignment)",
}

PENDING = "claimed in DESIGN.md; the check is not built yet (work in progress), so it is not claimed here"


def main():
    checks = []
    served = []
    na = []
    for pid in ALL:
        try:
            plan = importlib.import_module("plans.%s" % pid.lower())
        except ImportError:
            plan = None
        if plan is not None and hasattr(plan, "MANIFEST"):
            m = plan.MANIFEST
            served.append(pid)
            checks.append({
                "property_id": pid,
                "quick_cmd": "./check %s --tier quick" % pid,
                "thorough_cmd": "./check %s --tier thorough" % pid,
                "evidence_file": "/verif/evidence/%s.json" % pid,
                "replay_cmd_template": "./check %s --replay {path}" % pid,
                "engine": "kani-cbmc",
                "level_claimed": {"category": "model_checking", "text": m["text"], "design_ref": m.get("design_ref", "DESIGN.md §3 " + pid)},
                "level_note": m["note"],
                "technique": m["technique"],
            })
        else:
            na.append({"property_id": pid, "reason": NOT_APPLICABLE.get(pid, PENDING)})
    try:
        fixes = subprocess.check_output(["git", "-C", "/repo", "log", "--format=%h %s", "--grep=^fix:"], text=True).strip().split("\n")
        fixes = [f for f in fixes if f]
    except Exception:
        fixes = []
    man = {
        "version": 1,
        "setup_cmd": "./setup.sh",
        "hooks": {
            "guard": "none (no source hooks: harness modules are appended to scratch copies of the sources outside /repo; cfg(kani) exists only there)",
            "enable": "n/a - every check copies /repo's working tree into a scratch workspace under /var/tmp and compiles that with cargo kani",
            "baseline_off_cmd": "cd /repo && (cargo nextest run --workspace --no-fail-fast --tool-config-file pb:/w/lib/nextest.toml --profile pb --test-threads 8 --offline || cargo test --workspace --no-fail-fast --offline)",
            "source_commits": [f.split(" ")[0] for f in fixes],
            "add_only": True,
        },
        "engines": [{
            "name": "kani-cbmc", "path": "/verif/check", "serves_properties": served,
            "kind_free_text": "bounded model checking of the compiled Rust source (Kani 0.68 -> CBMC 6.11 -> CaDiCaL); the scratch workspace is regenerated from /repo on every run; counterexamples are replayed natively (Kani concrete playback against std containers / the real functions) before they are reported",
        }],
        "checks": checks,
        "notes": "Exit codes of ./check: 0 held within the stated bounds (or only known findings), 1 natively replayed violation, 2 inconclusive (timeout, OOM, build error, vacuous harness, non-reproducing counterexample; never counted as held). source_commits lists 'fix:' repairs only; there are no hook commits. See DESIGN.md.",
        "not_applicable": na,
    }
    with open(os.path.join(HERE, "MANIFEST.json"), "w") as f:
        json.dump(man, f, indent=1)
        f.write("\n")
    print("checks:", served)
    print("not_applicable:", [x["property_id"] for x in na])


if __name__ == "__main__":
    main()

#!/bin/sh
# tools/seed_confirm3.sh <worktree> <seed-dir-name> <package> <test-filter> [lib-test packages...]
# Like seed_confirm2.sh for demonstrations delivered as demo.diff (a #[cfg(test)] module appended to a source file).
WT="$1"; S="$2"; PKG="$3"; FILTER="$4"; shift 4
PKGS="${*:-datacake-crdt datacake-eventual-consistency}"
export CARGO_TARGET_DIR="$WT/target" CARGO_NET_OFFLINE=true
cd "$WT" || exit 9
git checkout -q -- .
git apply "$S/patch.diff" || { echo "CONFIRM $S: patch does not apply"; exit 9; }
LIB=""
for p in $PKGS; do
  r=$(cargo test -p "$p" --offline --lib 2>&1 | grep "test result" | head -1)
  LIB="$LIB | $p: $r"
done
git apply "$S/demo.diff" || { echo "CONFIRM $S: demo.diff does not apply on top of the patch"; git checkout -q -- .; exit 9; }
D1=$(cargo test -p "$PKG" --offline --lib "$FILTER" 2>&1 | grep "test result" | head -1)
git checkout -q -- .
git apply "$S/demo.diff"
D2=$(cargo test -p "$PKG" --offline --lib "$FILTER" 2>&1 | grep "test result" | head -1)
git checkout -q -- .
echo "CONFIRM $WT $S $LIB | demo-with: $D1 | demo-without: $D2"

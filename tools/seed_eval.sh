#!/bin/sh
# tools/seed_eval.sh <patch.diff> <Cxx> [tier] : run a check against a seeded change.
# SEED_BASE=<commit> applies the change on that commit instead of HEAD (for changes written against an earlier tree).
# The change is applied to a scratch worktree of /repo (never to /repo itself while other checks may be
# running); the check reads it through VERIF_REPO and writes evidence/logs under out/seed_eval/.
set -u
PATCH="$1"; PROP="$2"; TIER="${3:-quick}"
SR=/var/tmp/seedrepo.$$
git -C /repo worktree add -q --detach "$SR" "${SEED_BASE:-HEAD}" || exit 9
cp /repo/Cargo.lock "$SR/Cargo.lock"
cd "$SR" && git apply "$PATCH" || { echo "patch does not apply"; git -C /repo worktree remove --force "$SR"; exit 9; }
cd /verif
mkdir -p out/seed_eval
VERIF_REPO="$SR" VERIF_EVIDENCE_DIR=/verif/out/seed_eval/evidence VERIF_OUT_DIR=/verif/out/seed_eval ./check "$PROP" --tier "$TIER"; rc=$?
git -C /repo worktree remove --force "$SR"
echo "seed_eval: $PATCH $PROP tier=$TIER rc=$rc"
exit $rc

#!/bin/sh
# tools/seed_eval.sh <patch.diff> <Cxx> [tier] : apply a seeded change to /repo, run the check, undo it.
set -u
PATCH="$1"; PROP="$2"; TIER="${3:-quick}"
cd /repo || exit 9
if [ -n "$(git status --porcelain --untracked-files=no)" ]; then echo "REPO DIRTY - refusing"; exit 9; fi
git apply "$PATCH" || { echo "patch does not apply"; exit 9; }
cd /verif && ./check "$PROP" --tier "$TIER"; rc=$?
git -C /repo checkout -- .
echo "seed_eval: $PATCH $PROP rc=$rc"
exit $rc

#!/bin/sh
# tools/seed_confirm.sh <worktree> <seed-number> <pkg|itest> [itest-file-prefix]
# Confirms in the scratch worktree: with the patch the crdt + e-c lib suites pass and the demo fails; without it the demo passes.
WT="$1"; N="$2"; KIND="$3"; PFX="${4:-}"
cd "$WT" || exit 9
git checkout -q -- . ; rm -rf datacake-crdt/tests
git apply "seed$N/patch.diff" || { echo "CONFIRM seed$N: patch does not apply"; exit 9; }
T1=$(cargo test -p datacake-crdt --offline --lib 2>&1 | grep "test result" | head -1)
T2=$(cargo test -p datacake-eventual-consistency --offline --lib 2>&1 | grep "test result" | head -1)
if [ "$KIND" = pkg ]; then
  D1=$(cd "seed$N/demo" && cargo test --offline 2>&1 | grep "test result" | grep -v " 0 passed; 0 failed" | head -1)
else
  mkdir -p datacake-crdt/tests; cp "seed$N/${PFX}$N.rs" datacake-crdt/tests/
  D1=$(cargo test -p datacake-crdt --offline --test "${PFX}$N" 2>&1 | grep "test result" | head -1)
fi
git checkout -q -- .
if [ "$KIND" = pkg ]; then
  D2=$(cd "seed$N/demo" && cargo test --offline 2>&1 | grep "test result" | grep -v " 0 passed; 0 failed" | head -1)
  rm -rf "seed$N/demo/target"
else
  D2=$(cargo test -p datacake-crdt --offline --test "${PFX}$N" 2>&1 | grep "test result" | head -1)
  rm -rf datacake-crdt/tests
fi
echo "CONFIRM $WT seed$N | crdt-with: $T1 | ec-with: $T2 | demo-with: $D1 | demo-without: $D2"

#!/bin/sh
# tools/seed_confirm2.sh <worktree> <seed-dir-name> <crate-dir> <test-file (in seed dir)> [lib-test packages...]
# Confirms in the scratch worktree: with the patch the named lib suites pass and the demonstration (an integration test copied
# into <crate-dir>/tests/) fails; without the patch the demonstration passes.
WT="$1"; S="$2"; CRATE="$3"; TF="$4"; shift 4
PKGS="${*:-datacake-crdt datacake-eventual-consistency}"
export CARGO_TARGET_DIR="$WT/target" CARGO_NET_OFFLINE=true
cd "$WT" || exit 9
git checkout -q -- . ; rm -rf "$CRATE/tests"
git apply "$S/patch.diff" || { echo "CONFIRM $S: patch does not apply"; exit 9; }
LIB=""
for p in $PKGS; do
  r=$(cargo test -p "$p" --offline --lib 2>&1 | grep "test result" | head -1)
  LIB="$LIB | $p: $r"
done
T=$(basename "$TF" .rs)
mkdir -p "$CRATE/tests"; cp "$S/$TF" "$CRATE/tests/"
PKG=$(basename "$CRATE")
D1=$(cargo test -p "$PKG" --offline --test "$T" 2>&1 | grep "test result" | head -1)
git checkout -q -- .
D2=$(cargo test -p "$PKG" --offline --test "$T" 2>&1 | grep "test result" | head -1)
rm -rf "$CRATE/tests"
echo "CONFIRM $WT $S $LIB | demo-with: $D1 | demo-without: $D2"

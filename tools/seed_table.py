#!/usr/bin/env python3
"""Regenerates the seeded-changes table in DESIGN.md (between the SEED_TABLE markers) from seeded/*/meta.json."""
import json, os, re
HERE = os.path.dirname(os.path.dirname(os.path.abspath(__file__)))
rows = []
for sid in sorted(os.listdir(os.path.join(HERE, "seeded"))):
    p = os.path.join(HERE, "seeded", sid, "meta.json")
    if not os.path.exists(p):
        continue
    m = json.load(open(p))
    rows.append("| %s | %s | %s | %s | %s |" % (sid, m["property"], m["needs_to_manifest"].replace("|", "/"),
                                           "caught" if m["caught_by_check"] else "**missed**", m.get("detected_by", "").replace("|", "/")))
table = "| Seed | Property | Needs, to manifest | Result | Harnesses that report it / note |\n|---|---|---|---|---|\n" + "\n".join(rows)
p = os.path.join(HERE, "DESIGN.md")
s = open(p).read()
if "@@SEED_TABLE@@" in s:
    s = s.replace("@@SEED_TABLE@@", "<!-- SEED_TABLE_BEGIN -->\n" + table + "\n<!-- SEED_TABLE_END -->")
else:
    s = re.sub(r"<!-- SEED_TABLE_BEGIN -->.*?<!-- SEED_TABLE_END -->", "<!-- SEED_TABLE_BEGIN -->\n" + table.replace("\\", "\\\\") + "\n<!-- SEED_TABLE_END -->", s, flags=re.S)
open(p, "w").write(s)
print(len(rows), "seeds")

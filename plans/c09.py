"""C09 — hybrid clock stamps are unique, strictly increasing and respect causality."""
from plans import common

PROP = "C09"

META = {
    "functions": [("datacake-crdt/src/timestamp.rs",
                   ["send", "recv", "pack", "duration_to_parts", "parts_as_duration", "new",
                    "seconds", "fractional", "counter", "node", "datacake_timestamp"])],
    "bounds": {
        "clock_state": "every u64 with fractional < 250 (all seconds/counter/node values)",
        "remote_stamp": "every u64 with fractional < 250",
        "wall_clock": "every (u32 seconds, fraction 0..249) reading, chosen afresh per call (stalls, backward jumps)",
        "history_length": "inductive steps cover histories of any length; explicit histories k=3 (quick) / k=5 (thorough)",
        "unwind": "loop-free kernels; history loops unwound k+1 with unwinding assertions",
    },
    "models": [
        "stub: datacake_crdt::get_datacake_timestamp -> verif_env::wall (arbitrary 4ms-granular reading, 32-bit seconds; division-free)",
    ],
    "assumptions": [
        "clock values and remote stamps are valid timestamps (fractional < 250); HLCTimestamp::from_u64 can build others, excluded as 'not a timestamp'",
        "wall clock seconds since the datacake epoch fit 32 bits (until 2159)",
        "Kani/CBMC/CaDiCaL are sound; rustc MIR of the scratch copy equals the MIR of /repo's file (byte-identical copy + appended module)",
    ],
    "outside": ["wall clocks past 2159", "concurrent callers (C11)", "the real SystemTime source"],
}


MANIFEST = {
    "text": "Bounded model checking (SAT) of the real HLCTimestamp::send/recv: inductive one-step harnesses over every valid 64-bit "
            "clock value, every valid remote stamp and every 4ms-granular 32-bit wall-clock reading (so histories of any length "
            "follow by induction on 'clock >= everything issued or accepted'), plus explicit 3-call (quick) / 5-call (thorough) "
            "histories. Nothing is claimed outside those bounds.",
    "note": "Trusts Kani/CBMC/CaDiCaL, the wall-clock stub (arbitrary reading per call, 32-bit seconds), validity of stamps (fractional<250).",
    "technique": "Kani/CBMC bounded model checking of the compiled source; symbolic clock, remote stamp and wall clock; native replay",
}


def build(ws, tier, seed, mode):
    d, mounted = common.build_crdt_timestamp_only(ws, mode, ["harness_c09.rs"])
    return {"crates": {"crdt": {"dir": d, "features": ()}}, "mounted": mounted}


def harnesses(tier, seed):
    hs = [
        {"name": "c09_send_step", "crate": "crdt", "timeout_s": 300, "mem_gb": 8, "min_covers": 4,
         "what": "one send() from an arbitrary valid clock under an arbitrary wall reading: strictly greater, own node id, "
                 "drift-bounded, Err leaves the clock unchanged, satisfiable requests succeed",
         "bounds": "all u64 clocks (fractional<250) x all (u32,0..249) wall readings"},
        {"name": "c09_recv_step", "crate": "crdt", "timeout_s": 300, "mem_gb": 8, "min_covers": 6,
         "what": "one recv(msg) of an arbitrary valid remote stamp: clock passes msg in (time,counter), node kept, drift bound, "
                 "same-node / too-far-ahead / exhausted-counter requests fail without changing the clock",
         "bounds": "all clocks x all remote stamps x all wall readings"},
        {"name": "c09_history_k3", "crate": "crdt", "timeout_s": 600, "mem_gb": 12, "min_covers": 1,
         "what": "3 calls, each send or recv(arbitrary), fresh arbitrary wall clock per call: every issued stamp exceeds every "
                 "stamp issued or accepted earlier",
         "bounds": "k=3, unwind 4"},
    ]
    if tier == "thorough":
        hs.append({"name": "c09_history_k5", "crate": "crdt", "timeout_s": 1800, "mem_gb": 16, "min_covers": 1,
                   "what": "same with 5 calls", "bounds": "k=5, unwind 6"})
    return hs

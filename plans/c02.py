"""C02 — on each node the replicated metadata and the persisted store never disagree."""
from plans import common

PROP = "C02"
CFG = {"quick": (2, 2), "thorough": (2, 2)}

META = {
    "functions": [
        ("datacake-eventual-consistency/src/keyspace/actor.rs", ["on_set", "on_multi_set", "on_del", "on_multi_del", "on_purge_tombstones", "inc_change_timestamp"]),
        ("datacake-eventual-consistency/src/storage.rs", ["put_with_ctx", "multi_put_with_ctx", "successful_doc_ids", "new"]),
        ("datacake-crdt/src/orswot.rs", ["will_apply", "insert_with_source", "delete_with_source", "purge_old_deletes", "add_raw_tombstones", "try_update_max_stamp"]),
    ],
    "bounds": {
        "shape": "ONE handler call from an ARBITRARY node state in which the set satisfies its invariant and set and store agree (so agreement after every prefix of every request sequence follows by induction, within the domain)",
        "domain": "KEYS=2 NODES=2, N=2 sources; handlers: on_set, on_del, on_purge_tombstones",
        "timestamps": "fully symbolic valid stamps (any origin < NODES), arbitrary source",
        "faults": "every storage call may fail; remove_tombstones may fail after an arbitrary prefix and reports exactly the ids removed",
    },
    "models": [
        "vcoll container models inside the regenerated datacake-crdt (see C04); std HashSet in actor.rs -> RefSet model (import rewrite, 1 line); Vec<Key> inside BulkMutationError (storage.rs) -> fixed-capacity IdVec (3 rewrite hits); the two `valid_entries` Vecs of the bulk handlers -> vcoll Vec (2 rewrite hits)",
        "shim crates at the crate boundary: datacake-node (Clock: arbitrary strictly increasing stamps with the node id), datacake-rpc (Channel: unit struct), puppet + puppet-derive (pass-through #[puppet_actor]/#[puppet])",
        "ModelStore: harness Storage impl over one row per key with a symbolic failure schedule; all futures immediately ready; polled once with a no-op waker",
    ],
    "assumptions": [
        "the Storage implementation is honest: a failed single call wrote nothing, a failed bulk call reports exactly what it wrote (the trait's contract)",
        "set invariant over-approximates reachable states",
    ],
    "outside": ["the bulk handlers on_multi_set / on_multi_del (tried: 31 M variables for a one-document bulk delete with a no-op store, no result in 20 min, out of memory at 50 GB) - so 'a partially failed bulk makes visible exactly what storage reports' is NOT decided",
                "SQLite/LMDB honouring the contract (C17)", "more than 2 keys / 2 origins", "the mailbox/tokio scheduling around the handlers"],
}

MANIFEST = {
    "text": "Bounded model checking (SAT) of the real KeyspaceActor handlers on_set, on_del and on_purge_tombstones mounted verbatim with "
            "the real core/storage/messages modules and the regenerated datacake-crdt: one handler call from an arbitrary agreeing "
            "(set, store) node state with fully symbolic timestamps, sources and storage failure points; afterwards set and store agree "
            "again, a failed single operation changed neither side, a partially failed purge keeps exactly the tombstones whose removal "
            "was not reported, and the set invariant holds - an inductive step covering request sequences of any length within 2 keys x 2 origins. The bulk put/delete handlers did not finish and are outside the claim.",
    "note": "Trusts Kani/CBMC, the vcoll/RefSet container models, the shim crates standing in for Clock/Channel/puppet, the ModelStore honouring the Storage contract.",
    "technique": "Kani/CBMC bounded model checking of the compiled source; inductive handler step from symbolic agreeing state with symbolic fault schedule; native replay",
}


def build(ws, tier, seed, mode):
    keys, nodes = CFG[tier]
    d, mounted, cfg = common.build_actor_mount(ws, mode, ["harness_c02.rs"], keys, nodes)
    feats = ("verif_replay",) if mode == "replay" else ()
    return {"crates": {"ecv": {"dir": d, "features": feats}}, "mounted": mounted, "cfg": cfg}


def validate(ws, build, logs_dir):
    return common.validate_vcoll(ws, logs_dir)


def harnesses(tier, seed):
    def h(name, what, t=1800, mem=24, covers=1):
        return {"name": name, "crate": "ecv", "timeout_s": t, "mem_gb": mem, "min_covers": covers, "what": what, "bounds": ""}
    hs = [
        h("c02_on_set_step", "one put request from an arbitrary agreeing state, storage may fail", covers=3),
        h("c02_on_del_step", "one delete request from an arbitrary agreeing state, storage may fail", covers=2),
        h("c02_on_purge_step", "one purge request; removal in storage may fail part-way", covers=2),
    ]
    # The bulk handlers (c02_on_multi_set_step, c02_on_multi_del_step and their one-document forms
    # c02_on_multi_set1_step / c02_on_multi_del1_step) are kept in encode/harness_c02.rs but are NOT registered:
    # even with a store that does nothing, on_multi_del with ONE document yields 31 M variables / 150 M clauses
    # and does not finish in 20 min (50 GB cap: out of memory during propositional reduction).  They are
    # outside the claim (DESIGN.md section 3, C02).
    return hs

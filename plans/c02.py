"""C02 — on each node the replicated metadata and the persisted store never disagree."""
from plans import common

PROP = "C02"
CFG = {"quick": (2, 2), "thorough": (2, 2)}

META = {
    "functions": [
        ("datacake-eventual-consistency/src/keyspace/actor.rs", ["on_set", "on_multi_set", "on_del", "on_multi_del", "on_purge_tombstones", "inc_change_timestamp"]),
        ("datacake-eventual-consistency/src/storage.rs", ["put_with_ctx", "multi_put_with_ctx", "successful_doc_ids", "new"]),
        ("datacake-crdt/src/orswot.rs", ["will_apply", "insert_with_source", "delete_with_source", "purge_old_deletes", "add_raw_tombstones", "try_update_max_stamp"]),
    ],
    "bounds": {
        "shape": "ONE handler call from an ARBITRARY node state in which the set satisfies its invariant and set and store agree (so agreement after every prefix of every request sequence follows by induction, within the domain)",
        "domain": "KEYS=2 NODES=2, N=2 sources; handlers: on_set, on_del, on_purge_tombstones, on_multi_set / on_multi_del with ONE document (quick + thorough) and with TWO documents of distinct ids (thorough only)",
        "timestamps": "fully symbolic valid stamps (any origin < NODES), arbitrary source (0 = consistency, 1 = read repair)",
        "faults": "every storage call may fail; bulk calls and remove_tombstones may fail after an arbitrary prefix (or after everything was written) and report exactly the ids written, in ARBITRARY order",
        "unwind": "Vec capacity + 2 for the single-request harnesses; max(DOM, VCAP) + 1 = 3 for the bulk harnesses; unwinding assertions on",
    },
    "models": [
        "vcoll container models inside the regenerated datacake-crdt (see C04); std HashSet in actor.rs -> RefSet model (import rewrite, 1 line); Vec<Key> inside BulkMutationError (storage.rs) -> fixed-capacity IdVec (3 rewrite hits); the two `valid_entries` Vecs of the bulk handlers -> vcoll Vec (2 rewrite hits); DocVec<T> = SmallVec<[T; 4]> (core.rs) -> vcoll Vec (alias rewrite, 1 line)",
        "two instances of the mount: Vec capacity 2 (single requests, purge, two-document bulk) and Vec capacity 1 (bulk1/: one-document bulk requests)",
        "shim crates at the crate boundary: datacake-node (Clock: arbitrary strictly increasing stamps with the node id), datacake-rpc (Channel: unit struct), puppet + puppet-derive (pass-through #[puppet_actor]/#[puppet])",
        "ModelStore: harness Storage impl over one row per key with a symbolic failure schedule; it does its work eagerly and returns already-completed futures (the handlers await every storage call immediately); polled once with a no-op waker",
    ],
    "assumptions": [
        "the Storage implementation is honest: a failed single call wrote nothing, a failed bulk call reports exactly what it wrote (the trait's contract)",
        "set invariant over-approximates reachable states",
        "a bulk request does not carry the same document id twice (two-document harnesses)",
        "the payload of a document has a second, leaked owner in the harness (so no drop path frees it): the handlers never look at the payload",
    ],
    "outside": ["bulk requests with more than two documents; the two-document forms are thorough-tier only and are reported inconclusive when they exceed the cap",
                "SQLite/LMDB honouring the contract (C17)", "more than 2 keys / 2 origins", "the mailbox/tokio scheduling around the handlers"],
}

MANIFEST = {
    "text": "Bounded model checking (SAT) of the real KeyspaceActor handlers on_set, on_del, on_purge_tombstones and the bulk handlers on_multi_set / "
            "on_multi_del (requests carrying one document; two documents in the thorough tier) mounted verbatim with the real core/storage/messages "
            "modules and the regenerated datacake-crdt: one handler call from an arbitrary agreeing (set, store) node state with fully symbolic "
            "timestamps, sources and storage failure points (bulk calls fail after any prefix and report what they wrote in any order); afterwards "
            "set and store agree again, a failed single operation changed neither side, a document the store did not report as written is applied to "
            "neither side, a partially failed purge keeps exactly the tombstones whose removal was not reported, and the set invariant holds - an "
            "inductive step covering request sequences of any length within 2 keys x 2 origins.",
    "note": "Trusts Kani/CBMC, the vcoll/RefSet/IdVec container models, the shim crates standing in for Clock/Channel/puppet, the ModelStore honouring the Storage contract.",
    "technique": "Kani/CBMC bounded model checking of the compiled source; inductive handler step from symbolic agreeing state with symbolic fault schedule; native replay",
}


def build(ws, tier, seed, mode):
    keys, nodes = CFG[tier]
    d, mounted, cfg = common.build_actor_mount(ws, mode, ["harness_c02.rs"], keys, nodes)
    # a second instance whose Vec model holds ONE element: bulk requests carrying one document (every consuming loop of
    # the bulk handlers is then unrolled once; with capacity 2 the same harness needs 17.6 M variables and 25+ minutes)
    d1, mounted1, cfg1 = common.build_actor_mount(ws, mode, ["harness_c02.rs"], keys, nodes, vcap=1, subdir="bulk1")
    feats = ("verif_replay",) if mode == "replay" else ()
    cfg = dict(cfg)
    cfg["VCAP_bulk1"] = cfg1["VCAP"]
    return {"crates": {"ecv": {"dir": d, "features": feats}, "ecv1": {"dir": d1, "features": feats}}, "mounted": mounted, "cfg": cfg}


def validate(ws, build, logs_dir):
    return common.validate_vcoll(ws, logs_dir)


def harnesses(tier, seed):
    def h(name, what, t=800, mem=12, covers=1, crate="ecv"):
        return {"name": name, "crate": crate, "timeout_s": t, "mem_gb": mem, "min_covers": covers, "what": what, "bounds": ""}
    hs = [
        h("c02_on_set_step", "one put request from an arbitrary agreeing state, storage may fail", covers=3),
        h("c02_on_del_step", "one delete request from an arbitrary agreeing state, storage may fail", covers=2),
        h("c02_on_purge_step", "one purge request; removal in storage may fail part-way, removed ids reported in any order", covers=2),
        h("c02_on_multi_del1_step", "one bulk delete carrying one document, any source; the store may fail before or after writing it",
          t=800, mem=16, covers=2, crate="ecv1"),
        h("c02_on_multi_set1_step", "one bulk put carrying one document, any source; the store may fail before or after writing it",
          t=800, mem=16, covers=2, crate="ecv1"),
    ]
    if tier == "thorough":
        hs += [
            h("c02_on_multi_del_step", "one bulk delete carrying two documents with distinct ids; the store may fail after any prefix and "
              "reports the ids it wrote in any order", t=3600, mem=28, covers=2),
            h("c02_on_multi_set_step", "one bulk put carrying two documents with distinct ids; the store may fail after any prefix and "
              "reports the ids it wrote in any order", t=3600, mem=28, covers=2),
        ]
    return hs

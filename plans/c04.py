"""C04 — per key the greatest timestamp wins, whatever order operations arrive in."""
from plans import common

PROP = "C04"

CFG = {"quick": (2, 2), "thorough": (3, 3)}  # (KEYS, NODES)

META = {
    "functions": [
        ("datacake-crdt/src/orswot.rs", ["will_apply", "insert_with_source", "delete_with_source", "try_update_max_stamp",
                                         "compute_safe_last_stamp", "is_ts_before_last_observed_event", "get"]),
        ("datacake-crdt/src/timestamp.rs", ["new", "datacake_timestamp", "pack", "duration_to_parts", "parts_as_duration"]),
    ],
    "bounds": {
        "timestamps": "never bounded beyond validity: seconds full u32, fraction 0..249, counter full u16; origin node id < NODES",
        "domain": "quick KEYS=2 NODES=2; thorough KEYS=3 NODES=3; sources N=1 and N=2 (one harness per instantiation)",
        "shape_I": "one insert/delete from an ARBITRARY replica state satisfying the representation invariant (so histories of any length are covered by induction, within the key/node domain)",
        "shape_H": "explicit histories from the empty set: k=2,3 (quick) and k=4 (thorough) operations, arbitrary keys/sources/arrival order",
    },
    "models": [
        "vcoll: direct-indexed BTreeMap/HashMap/HashSet/Vec look-alikes replace std::collections in orswot.rs (import rewrite only; every other line is byte-identical); key or capacity overflow is an assertion failure",
        "spec_cutoff: 25-line division-free model of the purge cut-off used to state the invariant",
    ],
    "assumptions": [
        "operations carry pairwise distinct, valid timestamps (the property's precondition)",
        "every operation is timely: strictly less than 3600 s (in whole seconds) older than the newest stamp already seen from its origin",
        "the representation invariant (DESIGN.md §2.4) over-approximates reachable states; it is itself re-established by every step harness",
        "std containers behave like the vcoll models (validated natively by the repo's own unit tests run through the models and by native replay of every counterexample on std)",
    ],
    "outside": ["more than 2 sources", "key/node domains larger than stated", "histories longer than k for the H harnesses", "merge (C03)"],
}

MANIFEST = {
    "text": "Bounded model checking (SAT) of the real OrSWotSet insert/delete/will_apply code: (I) one operation from an arbitrary "
            "invariant-satisfying replica state with fully symbolic 64-bit timestamps - the key's view becomes the LWW maximum, other "
            "keys are untouched, return value == will_apply == 'view changed', invariant preserved - which covers histories of any "
            "length by induction within the key/node domain; (H) explicit histories of 2-4 operations from the empty set in every "
            "arrival order against a fold oracle. Sources N=1 and N=2.",
    "note": "Trusts Kani/CBMC, the vcoll container models standing in for std::collections (import rewrite), the invariant being an over-approximation of reachable states.",
    "technique": "Kani/CBMC bounded model checking of the compiled source; inductive step from symbolic invariant state + bounded histories; native replay on std containers",
}


def build(ws, tier, seed, mode):
    keys, nodes = CFG[tier]
    d, mounted, cfg = common.build_crdt_vcoll(ws, mode, ["harness_orswot_common.rs", "harness_c04.rs"], keys, nodes)
    feats = ("verif_replay",) if mode == "replay" else ()
    return {"crates": {"crdt": {"dir": d, "features": feats}}, "mounted": mounted, "cfg": cfg}


def validate(ws, build, logs_dir):
    return common.validate_vcoll(ws, logs_dir)


def harnesses(tier, seed):
    def h(name, what, bounds="", t=900, mem=12, covers=1, finding=None):
        return {"name": name, "crate": "crdt", "timeout_s": t, "mem_gb": mem, "min_covers": covers, "what": what, "bounds": bounds,
                "finding": finding}
    hs = [
        h("c04_step_n2", "one timely op from an arbitrary invariant state, 2 sources", covers=4),
        h("c04_step_n1", "one timely op from an arbitrary invariant state, 1 source", covers=4),
        h("c04_step_stale_n2", "an op before the cut-off is refused by will_apply and the mutator and changes nothing"),
        h("c04_history_k2_n2", "2-op histories from empty, all arrival orders", covers=2),
        h("c04_history_k3_n2", "3-op histories from empty, all arrival orders", covers=2, t=1500, mem=16),
    ]
    if tier == "thorough":
        hs += [
            h("c04_history_k3_n1", "3-op histories, single source", covers=2, t=3000, mem=24),
            h("c04_history_k4_n2", "4-op histories from empty", covers=2, t=5400, mem=40),
        ]
    return hs

"""C08 — purging tombstones is invisible and deletes stay deleted (single-replica half)."""
from plans import common

PROP = "C08"
CFG = {"quick": (2, 2), "thorough": (3, 3)}

META = {
    "functions": [
        ("datacake-eventual-consistency/src/keyspace/actor.rs", ["on_purge_tombstones"]),
        ("datacake-crdt/src/orswot.rs", ["purge_old_deletes", "add_raw_tombstones", "will_apply", "insert_with_source", "delete_with_source",
                                         "try_update_max_stamp", "compute_safe_last_stamp", "is_ts_before_last_observed_event", "get"]),
    ],
    "bounds": {
        "timestamps": "full 64-bit valid stamps; origin node id < NODES",
        "domain": "quick KEYS=2 NODES=2; thorough KEYS=3 NODES=3; sources N=2 (and N=1 for the purge step)",
        "shape_I": "purge_old_deletes from an ARBITRARY invariant-satisfying state, followed by one arbitrary operation of a deleting node that is not newer than a purged delete",
        "differential": "from an arbitrary invariant state, k=1 (quick) / k=2 (thorough) arbitrary timely operations applied to a purging and a non-purging copy, purge points symbolic",
    },
    "models": ["vcoll container models (see C04)", "spec_cutoff (division-free model of the purge cut-off)"],
    "assumptions": [
        "representation invariant over-approximates reachable states (re-established by every step harness here and in C04)",
        "differential: every later operation is timely (less than 3600 s older than the newest stamp the replica saw from its origin) and carries a fresh stamp",
    ],
    "outside": ["the cluster-level half: convergence of purging and non-purging replicas through merges/repair over longer histories (needs merge across >=2 replicas; see C03/C05 bounds)",
                "the hourly purge task and storage.remove_tombstones (actor level: C02)"],
}

MANIFEST = {
    "text": "Bounded model checking (SAT) of the real purge_old_deletes/add_raw_tombstones plus the mutators: from an arbitrary "
            "invariant-satisfying replica state, purging changes no live id, removes and reports exactly the tombstones below their "
            "origin's cut-off, and afterwards every operation of the deleting node not newer than a purged delete is refused by "
            "will_apply and the mutator without changing anything (inductive, any history length within the key/node domain); a "
            "purging and a non-purging copy stay equal on lookups over further timely operations; the actor-level purge "
            "(on_purge_tombstones, storage failing part-way) removes only such tombstones, from set and store alike, and re-adds exactly "
            "those whose removal was not reported. The multi-replica convergence half of the property is outside the claim.",
    "note": "Trusts Kani/CBMC, the vcoll container models, the invariant as an over-approximation of reachable states.",
    "technique": "Kani/CBMC bounded model checking of the compiled source; inductive purge step from symbolic invariant state; differential purging vs non-purging replica; native replay",
}


def build(ws, tier, seed, mode):
    keys, nodes = CFG[tier]
    d, mounted, cfg = common.build_crdt_vcoll(ws, mode, ["harness_orswot_common.rs", "harness_c08.rs"], keys, nodes)
    feats = ("verif_replay",) if mode == "replay" else ()
    # the actor-level purge (KeyspaceActor::on_purge_tombstones with a store that may fail part-way): the C02 actor mount.
    # It lives in a sub-directory of its own because it brings its own regenerated datacake-crdt (always KEYS=2 NODES=2).
    da, mounted_a, _ = common.build_actor_mount(ws, mode, ["harness_c02.rs"], 2, 2, subdir="actor")
    mounted = mounted + [m for m in mounted_a if "eventual-consistency" in m["source"]]
    return {"crates": {"crdt": {"dir": d, "features": feats}, "ecv": {"dir": da, "features": feats}}, "mounted": mounted, "cfg": cfg}


def validate(ws, build, logs_dir):
    return common.validate_vcoll(ws, logs_dir)


def harnesses(tier, seed):
    def h(name, what, t=900, mem=12, covers=1):
        return {"name": name, "crate": "crdt", "timeout_s": t, "mem_gb": mem, "min_covers": covers, "what": what, "bounds": ""}
    hs = [
        h("c08_purge_step_n2", "purge from an arbitrary state: live ids unchanged, exactly the sub-cut-off tombstones removed/reported, old ops of the deleting node still refused", covers=3),
        h("c08_purge_step_n1", "same, single source", covers=3),
        h("c08_cutoff_monotone_n2", "any operation (timely or not): no newest-seen stamp and no purge cut-off ever moves backwards; cut-off == spec(newest-seen)", covers=2),
        h("c08_op_then_purge_n2", "an operation then a purge: only tombstones every source has seen the origin pass by > window are purged; live ids unchanged"),
        h("c08_readd_restores_n2", "purge then add_raw_tombstones(reported) restores every view"),
        h("c08_differential_k1_n2", "purging vs non-purging copy, one further timely op"),
    ]
    hs.append({"name": "c02_on_purge_step", "crate": "ecv", "timeout_s": 800, "mem_gb": 12, "min_covers": 2, "bounds": "KEYS=2 NODES=2",
               "what": "the actor-level purge (on_purge_tombstones) from an arbitrary agreeing (set, store) state with a store that may fail after "
                       "removing an arbitrary prefix and reports what it removed in any order: only tombstones below their origin's cut-off "
                       "disappear, from both sides; a completed purge leaves none of them behind; a failed one keeps exactly the unreported ones"})
    if tier == "thorough":
        hs.append(h("c08_differential_k2_n2", "purging vs non-purging copy, two further timely ops", t=3600, mem=32))
    return hs

"""C05 — the computed difference is exactly what a replica lacks; one exchange repairs."""
from plans import common

PROP = "C05"

META = {
    "functions": [
        ("datacake-eventual-consistency/src/keyspace/actor.rs", ["on_multi_set", "on_multi_del"]),
        ("datacake-crdt/src/orswot.rs", ["diff", "check_self_then_insert_to", "is_ts_before_last_observed_event", "will_apply",
                                         "insert_with_source", "delete_with_source", "try_update_max_stamp", "compute_safe_last_stamp", "get"]),
    ],
    "bounds": {
        "timestamps": "full 64-bit valid stamps (exactness); stamps within one forgiveness period of a symbolic base (repair)",
        "domain": "KEYS=2 NODES=2 (all harnesses); thorough adds the exactness harnesses at KEYS=3 NODES=3; N=2 (and N=1 for exactness)",
        "exactness": "two ARBITRARY invariant-satisfying states",
        "repair": "(quick+thorough) two ARBITRARY invariant-satisfying replicas whose stamps all lie within one forgiveness period, one-directional repair, both batch orders; the pool-built two-way exchange harness did not finish and is not registered",
    },
    "models": ["vcoll container models (see C04)", "spec_cutoff",
               "repair path: the will_apply-gated, stamp-ordered batch application of on_multi_del/on_multi_set on READ_REPAIR_SOURCE_ID is transcribed in the harness (20 lines) for the two-state repair harnesses; the REAL handlers (one-document requests) are additionally run from the C02 actor mount (shims and store model as listed under C02)"],
    "assumptions": ["representation invariant over-approximates reachable states", "repair: distinct stamps, all within one forgiveness period (the property's second condition)"],
    "outside": ["the gap-free-prefix condition beyond what subsets of a <=3-operation pool exhibit", "pools larger than 3", "storage/network parts of the repair path (poller.rs)"],
}

MANIFEST = {
    "text": "Bounded model checking (SAT) of the real diff/check_self_then_insert_to on two arbitrary invariant-satisfying replica states "
            "with fully symbolic timestamps: a key is listed iff the peer holds a strictly newer insert/delete (or, if the replica holds "
            "nothing, one not below the replica's cut-off), once, in the right list, with the peer's stamp; and of the repair step on two "
            "arbitrary replica states within one forgiveness period: applying ANY single item of the difference (will_apply-gated, "
            "read-repair source) removes exactly that item, touches no other key and preserves invariant and window condition (so any "
            "batch split/order empties the difference); in the thorough tier the whole two-batch application in both orders leaves "
            "nothing to fetch and the replica at least as new as the peer on every key the peer holds; the real bulk handlers of the repair path (one-document requests) make an admitted item visible in set and store or leave both unchanged. The two-way exchange on "
            "pool-built replicas did not finish and is not claimed by a harness of its own.",
    "note": "Trusts Kani/CBMC, the vcoll container models, the invariant, and the 20-line transcription of the gated batch application.",
    "technique": "Kani/CBMC bounded model checking of the compiled source; symbolic state pairs for exactness and for the inductive repair step; native replay",
}


def build(ws, tier, seed, mode):
    feats = ("verif_replay",) if mode == "replay" else ()
    d, mounted, cfg = common.build_crdt_vcoll(ws, mode, ["harness_orswot_common.rs", "harness_c05.rs"], 2, 2)
    crates = {"crdt": {"dir": d, "features": feats}}
    if tier == "thorough":
        # a second, larger encoding of the same sources for the exactness harnesses only (the repair harnesses do not
        # finish at 3 x 3)
        d3, m3, cfg3 = common.build_crdt_vcoll(ws, mode, ["harness_orswot_common.rs", "harness_c05.rs"], 3, 3, name="crdt33", suffix="_k3")
        crates["crdt33"] = {"dir": d3, "features": feats}
        cfg = {"crdt": cfg, "crdt33": cfg3}
    # the real repair application path: KeyspaceActor::on_multi_del / on_multi_set (one-document requests, any source incl. the
    # read-repair one, failing store) - the C02 actor mount with Vec capacity 1
    d1, mounted1, _ = common.build_actor_mount(ws, mode, ["harness_c02.rs"], 2, 2, vcap=1, subdir="bulk1")
    crates["ecv1"] = {"dir": d1, "features": feats}
    mounted = mounted + [m for m in mounted1 if "eventual-consistency" in m["source"]]
    return {"crates": crates, "mounted": mounted, "cfg": cfg}


def validate(ws, build, logs_dir):
    return common.validate_vcoll(ws, logs_dir)


def harnesses(tier, seed):
    def h(name, what, t=900, mem=12, covers=1, crate="crdt"):
        return {"name": name, "crate": crate, "timeout_s": t, "mem_gb": mem, "min_covers": covers, "what": what, "bounds": ""}
    hs = [
        h("c05_diff_exact_n2", "diff lists exactly what the replica lacks (two arbitrary states)", covers=2, t=1200, mem=16),
        h("c05_diff_exact_n1", "same, single source", covers=2, t=1200, mem=16),
        h("c05_self_diff_empty_n2", "diff against itself is empty"),
        h("c05_repair_one_item_n2", "applying any single item of A.diff(B) removes exactly that item from the difference; other keys, invariant and "
          "window condition preserved (induction step for any batch split/order)", covers=2, t=1500, mem=24),
    ]
    hs += [
        h("c02_on_multi_del1_step", "the real removal batch of the repair path (KeyspaceActor::on_multi_del, one document, any source, failing store): "
          "a completed request makes the removal visible exactly when the set admits it; set and store agree", covers=2, t=800, mem=16, crate="ecv1"),
        h("c02_on_multi_set1_step", "the real modification batch of the repair path (KeyspaceActor::on_multi_set, one document, any source, failing "
          "store): a completed request makes the document visible exactly when the set admits it; set and store agree", covers=2, t=800, mem=16, crate="ecv1"),
    ]
    if tier == "thorough":
        hs += [
            h("c05_repair_step_n2", "A applies A.diff(B) for two arbitrary in-window states, both batch orders: nothing left to fetch, A at least as "
              "new as B on B's keys", covers=2, t=3600, mem=24),
            h("c05_diff_exact_n2_k3", "diff exactness at KEYS=3 NODES=3", covers=2, t=3600, mem=24, crate="crdt33"),
            h("c05_diff_exact_n1_k3", "diff exactness at KEYS=3 NODES=3, single source", covers=2, t=3600, mem=24, crate="crdt33"),
            h("c05_self_diff_empty_n2_k3", "self-diff empty at KEYS=3 NODES=3", t=1800, mem=16, crate="crdt33"),
        ]
        # c05_exchange_repairs_p2 (pool-built replicas, one exchange each way) is kept in encode/harness_c05.rs but NOT
        # registered: 25 min timeout in the quick-tier formulation, out of memory at 40 GB after 8 min in the thorough one.
    return hs

"""C15 — replica selection yields enough distinct live peers or reports too few."""
import os
import shutil

import dcv
from plans import common

PROP = "C15"

LEVELS = [("none", "Consistency::None"), ("one", "Consistency::One"), ("two", "Consistency::Two"),
          ("three", "Consistency::Three"), ("quorum", "Consistency::Quorum"),
          ("localquorum", "Consistency::LocalQuorum"), ("all", "Consistency::All"),
          ("eachquorum", "Consistency::EachQuorum")]
N_LEVELS = ("one", "two", "three")
RNG_LAYOUTS = ([1, 1, 1], [1, 1, 1, 1], [2, 1, 1])
OWN_HARNESS = ("one", "two", "three", "quorum")

# (layout = nodes per data centre, positions of the local node that are instantiated)
QUICK_LAYOUTS = [
    ([3], [(0, 0), (0, 2)]),
    ([2, 2], [(0, 0), (1, 1)]),
    ([1, 3], [(0, 0), (1, 1)]),
    ([1, 1, 1], [(1, 0)]),
    ([4], [(0, 1)]),
    ([1, 1], [(0, 0)]),
]
THOROUGH_LAYOUTS = QUICK_LAYOUTS + [
    ([3], [(0, 1)]),
    ([1], [(0, 0)]),
    ([2], [(0, 0), (0, 1)]),
    ([1, 2], [(0, 0), (1, 0)]),
    ([2, 3], [(0, 1), (1, 2)]),
    ([3, 3], [(0, 0), (1, 2)]),
    ([2, 1, 1], [(0, 0), (2, 0)]),
    ([1, 2, 2], [(0, 0), (1, 1)]),
    ([2, 2, 2], [(0, 0), (2, 1)]),
    ([3, 2, 1], [(0, 0), (1, 1), (2, 0)]),
    ([3, 3, 3], [(1, 1)]),
    ([1, 1, 1, 1], [(2, 0)]),
    ([2, 1, 1, 1], [(0, 1)]),
    ([5], [(0, 4)]),
]

META = {
    "functions": [("datacake-node/src/nodes_selector.rs", ["select_nodes", "select_n_nodes", "next", "len", "get_nodes"])],
    "bounds": {
        "shape": "ONE selection from a membership map whose per-data-centre rotating cursors are ARBITRARY reachable values "
                 "(0..=len: 'whatever selections were made before' - the cursor is the only state a selection leaves behind)",
        "configurations": "one harness per (layout, local node position, consistency level); quick: layouts [3] [2,2] [1,3] [1,1,1] [4] [1,1]; "
                          "thorough adds [1] [2] [1,2] [2,3] [3,3] [2,1,1] [1,2,2] [2,2,2] [3,2,1] [3,3,3] [1,1,1,1] [2,1,1,1] [5]; all 8 levels each",
        "rng": "every draw of the random data-centre choice is symbolic (choose_multiple returns an arbitrary subset of the requested size in arbitrary order); configurations that reach that branch are thorough-tier only",
        "unwind": "NodeVec capacity + 2; each layout runs in the crate with the smallest capacity that fits it (4, 5 or 8 -> unwind 6, 7, 10): covers nodes per DC + 1, 4-byte memcmp + 1, map capacity 4 + 1; checked by unwinding assertions",
    },
    "models": [
        "std::collections::BTreeMap -> vsel::BTreeMap (sorted association list over a fixed array of 4 slots; import rewrite, 1 line; "
        "validated natively against std over random call sequences)",
        "shim crates: tracing (+tracing-attributes: macros expand to nothing, #[instrument] passes the fn through), "
        "rand (thread_rng draws are kani::any(); IteratorRandom::choose_multiple = arbitrary subset in arbitrary order)",
        "SmallVec<[SocketAddr; 5]> (the Nodes alias) -> vsel::NodeVec (fixed array + length; alias rewrite, 1 line; validated natively against the real smallvec)",
        "real std Vec, real SocketAddr; tokio/flume are dependencies of the file but not reachable from the harness",
    ],
    "assumptions": [
        "total_nodes passed to the selector equals the number of nodes in the membership map (what the selector actor computes in SetNodes)",
        "every data centre in the map has at least one node and the local node is a member of its data centre (how watch_membership_changes builds the map)",
        "the required number of other nodes per level: None 0, One/Two/Three n, Quorum total/2, LocalQuorum local_dc/2, "
        "EachQuorum local_dc/2 + sum over other DCs (len/2+1), All total-1 (majority counting the issuer)",
    ],
    "outside": [
        "the selector actor around the function (tokio::spawn'ed loop: 2 s result cache, SetNodes never removing a departed data centre) - "
        "'after a membership update departed nodes are never selected again' is NOT decided",
        "layouts other than those instantiated (more than 4 data centres, more than 5 nodes per data centre)",
        "the Quorum level over more than one data centre (did not finish in 45 minutes for [2,2]; decided for single-data-centre layouts only)",
        "the random data-centre choice (more eligible data centres than nodes wanted) outside the layouts [1,1,1], [1,1,1,1], [2,1,1] of the thorough tier",
        "the real RNG distribution",
    ],
}

MANIFEST = {
    "text": "Bounded model checking (SAT) of the real DCAwareSelector::select_nodes / select_n_nodes / NodeCycler (nodes_selector.rs, "
            "std BTreeMap swapped for an association-list model by a one-line import rewrite): for each instantiated membership layout, "
            "local node position and consistency level, over ALL values of the per-data-centre rotating cursors (= whatever selections "
            "were made before) and ALL random draws (the configurations that reach the random data-centre choice run in the thorough tier only, for three layouts; the Quorum level is decided for single-data-centre layouts only): a successful selection contains only current members, never the local node, no "
            "duplicates, at least as many as the level requires (exactly n for One/Two/Three); not-enough-nodes is reported only when "
            "fewer than the required number of other nodes exist. The membership-update half of the property (selector actor) is outside the claim.",
    "note": "Trusts Kani/CBMC, the vsel map model, the tracing/rand shims; configurations are a finite instantiated list, not all layouts.",
    "technique": "Kani/CBMC bounded model checking of the compiled source; symbolic rotating cursors and RNG draws per concrete (layout, position, level); native replay on std containers",
}

SELV_CARGO = """[package]
name = "selv"
version = "0.0.0"
edition = "2021"

[dependencies]
flume = "0.10.14"
thiserror = "1"
tracing = { path = "../tracing" }
rand = { path = "../rand" }
smallvec = "1"
tokio = { version = "1", default-features = false, features = ["sync", "time", "rt"] }

[workspace]

[lints.rust]
unexpected_cfgs = { level = "allow" }

[profile.dev]
debug = 1
"""

SELV_LIB = """// generated root of the selector mount
#![allow(dead_code, unused_imports)]
%s
mod nodes_selector;
pub use nodes_selector::Nodes;
"""

SELECTOR_REWRITES = [
    (r"^use std::collections::\{BTreeMap, HashMap\};$", "use std::collections::HashMap;\nuse crate::vsel::BTreeMap;", 1),
    # SmallVec's union of inline array / heap pointer (extend, clone, IntoIter) made the Quorum and All levels run out of
    # memory on a 3-node layout -> fixed-capacity NodeVec model (same API subset)
    (r"^pub type Nodes = SmallVec<\[SocketAddr; 5\]>;$", "pub type Nodes = crate::vsel::NodeVec;", 1),
]


def _layouts(tier):
    return THOROUGH_LAYOUTS if tier == "thorough" else QUICK_LAYOUTS


def _cap_for(layout):
    """capacity of the NodeVec model a layout needs: its largest data centre and its largest possible selection (all other
    nodes); at least 4 so that the small layouts share one crate"""
    return max(4, max(layout), sum(layout) - 1)


def _caps(tier):
    return sorted(set(_cap_for(lay) for lay, _ in _layouts(tier)))


def _uses_rng(layout, local_dc, lname):
    """does select_n_nodes take the choose_multiple branch (more eligible data centres than nodes wanted)?"""
    if lname not in N_LEVELS:
        return False
    n = {"one": 1, "two": 2, "three": 3}[lname]
    can_skip = sum(layout) - layout[local_dc] >= n
    return len(layout) - (1 if can_skip else 0) > n


def _configs(tier):
    """(harness name, layout, dc, node, level name, level expr or None for the symbolic choice among four cheap levels)"""
    out = []
    for layout, positions in _layouts(tier):
        for (dc, node) in positions:
            base = "c15_l%s_p%d%d_" % ("".join(str(x) for x in layout), dc, node)
            crate = "selv%d" % _cap_for(layout)
            for lname, lexpr in LEVELS:
                if lname == "quorum" and len(layout) > 1:
                    # Quorum's round-robin over several per-data-centre iterators did not finish in 45 minutes ([2,2]) - and its
                    # outcome does not depend on any symbolic input (it ignores the cursors): single-data-centre layouts only
                    continue
                if _uses_rng(layout, dc, lname) and (tier != "thorough" or layout not in RNG_LAYOUTS):
                    # the random data-centre choice makes the selected cyclers symbolic references: 8.8 M variables, 12 minutes,
                    # 16+ GB each: thorough tier, three layouts
                    continue
                if lname in OWN_HARNESS:
                    out.append((base + lname, layout, dc, node, lname, lexpr, crate))
            out.append((base + "others", layout, dc, node, "none|localquorum|all|eachquorum (symbolic choice)", None, crate))
    return out


def _harness_text(tier, crate):
    lines = []
    for (n, lay, dc, node, _, lexpr, c) in _configs(tier):
        if c != crate:
            continue
        arr = "[%s]" % ", ".join(str(x) for x in lay)
        if lexpr is None:
            lines.append("    selector_others_harness!(%s, %s, %d, %d);" % (n, arr, dc, node))
        else:
            lines.append("    selector_harness!(%s, %s, %d, %d, %s);" % (n, arr, dc, node, lexpr))
    return "\n".join(lines)


def build(ws, tier, seed, mode):
    """one crate per NodeVec capacity needed by the tier's layouts (quick: 4; thorough: 4, 5, 8) - a larger capacity means a
    larger unwind bound for every loop, so each layout runs in the smallest crate that fits it"""
    crates = {}
    mounted = []
    cfg = {}
    for cap in _caps(tier):
        root = ws.path("cap%d" % cap)
        os.makedirs(root, exist_ok=True)
        for shim in ("rand", "tracing", "tracing-attributes"):
            shutil.copytree(os.path.join(dcv.ENCODE, "shims", shim), os.path.join(root, shim), dirs_exist_ok=True)
        d = os.path.join(root, "selv")
        os.makedirs(os.path.join(d, "src"), exist_ok=True)
        dcv.write(os.path.join(d, "Cargo.toml"), SELV_CARGO)
        common.lockfile(d)
        unwind = cap + 2   # NodeVec loops, map capacity 4, 4-byte memcmp of DC names and IPv4 octets, + 1 for the exit test
        dcv.write(os.path.join(d, "src/lib.rs"), SELV_LIB % ("mod vsel_cfg;\nmod vsel;" if mode == "solve" else ""))
        if mode == "solve":
            shutil.copy(os.path.join(dcv.ENCODE, "vsel.rs"), os.path.join(d, "src/vsel.rs"))
            dcv.write(os.path.join(d, "src/vsel_cfg.rs"), "// generated per run: capacity of the NodeVec model\npub const NODEVEC_CAP: usize = %d;\n" % cap)
        m = dcv.mount("datacake-node/src/nodes_selector.rs", os.path.join(d, "src/nodes_selector.rs"),
                      rewrites=(SELECTOR_REWRITES if mode == "solve" else ()),
                      append=[os.path.join(dcv.ENCODE, "harness_c15.rs")],
                      subst={"@@HARNESSES@@": _harness_text(tier, "selv%d" % cap), "@@UNWIND@@": unwind, "@@NODEVEC_CAP@@": cap})
        if not mounted:
            mounted.append(m)
        crates["selv%d" % cap] = {"dir": d, "features": ()}
        cfg["selv%d" % cap] = {"NODEVEC_CAP": cap, "unwind": unwind}
    return {"crates": crates, "mounted": mounted, "cfg": cfg}


def validate(ws, build, logs_dir):
    """Encoder validation (not the deciding step): the container models against std BTreeMap / the real smallvec, natively."""
    import re
    d = ws.path("validate_vsel")
    os.makedirs(os.path.join(d, "src"), exist_ok=True)
    dcv.write(os.path.join(d, "Cargo.toml"), '[package]\nname = "vseltest"\nversion = "0.0.0"\nedition = "2021"\n[dependencies]\nsmallvec = "1"\n[workspace]\n')
    common.lockfile(d)
    dcv.write(os.path.join(d, "src/lib.rs"), "#![allow(dead_code)]\nmod vsel_cfg;\nmod vsel;\n")
    dcv.write(os.path.join(d, "src/vsel_cfg.rs"), "pub const NODEVEC_CAP: usize = 8;\n")
    with open(os.path.join(d, "src/vsel.rs"), "w") as f:
        f.write(open(os.path.join(dcv.ENCODE, "vsel.rs")).read())
        f.write(open(os.path.join(dcv.ENCODE, "vsel_difftest.rs")).read())
    env = dict(dcv.ENV)
    env["CARGO_TARGET_DIR"] = os.path.join(d, "target")
    rc, out, to = dcv.run_cmd(["cargo", "test", "--offline", "--lib"], d, 600, log_path=os.path.join(logs_dir, "validate_vsel.log"), env=env)
    m = re.search(r"test result: (\w+)\. (\d+) passed; (\d+) failed", out)
    ok = bool(m) and m.group(1) == "ok" and int(m.group(2)) >= 2 and rc == 0 and not to
    shutil.rmtree(d, ignore_errors=True)
    return [{"name": "vsel_vs_std_btreemap", "ok": ok, "tests_passed": int(m.group(2)) if ok else 0,
             "detail": "association-list map model vs std::collections::BTreeMap (2000 random call sequences) and NodeVec vs the real smallvec (3000 sequences)"}]


def harnesses(tier, seed):
    hs = []
    for (name, layout, dc, node, lname, _, crate) in _configs(tier):
        heavy = lname == "quorum"
        # three or more data centres: the random data-centre choice makes the selected cyclers symbolic references (8.8 M variables)
        rng_path = _uses_rng(layout, dc, lname)
        t_s = (3000 if tier == "thorough" else 800) if (heavy or rng_path) else 800
        mem = (20 if lname == "one" else 36) if rng_path else (12 if heavy else 8)
        cap = _cap_for(layout)
        if cap >= 8:
            t_s, mem = 3000, max(mem, 24)
        elif cap >= 5:
            t_s, mem = max(t_s, 1500), max(mem, 24 if heavy else 12)
        hs.append({
            "name": name, "crate": crate, "timeout_s": t_s, "mem_gb": mem,
            "min_covers": 1,
            "what": "layout %s, local node = node %d of dc-%d, level %s: members only, never the local node, no duplicates, enough "
                    "(exactly n for One/Two/Three); NotEnoughNodes only when too few other nodes exist" % (layout, node, dc, lname),
            "bounds": "all cursor values 0..=len per data centre, all RNG draws",
        })
    return hs

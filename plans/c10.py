"""C10 — timestamp encoding is lossless and order-preserving; parsing never panics."""
from plans import common

PROP = "C10"

META = {
    "functions": [("datacake-crdt/src/timestamp.rs",
                   ["new", "seconds", "fractional", "counter", "node", "datacake_timestamp", "unix_timestamp",
                    "as_u64", "from_u64", "from_str", "fmt", "cast", "pack", "duration_to_parts", "parts_as_duration"])],
    "bounds": {
        "numeric_encoding": "all (u32 seconds, fraction 0..249, u16 counter, u8 node) quadruples; all u64 pairs for the ordering lemma",
        "parse_kernel": "every combination of parsed field values (u64, u8, u16, u8) and every per-field parse failure, through the real splitn on a concrete 4-field text with the std integer parsers stubbed to 'any value or error'",
        "parse_text": "real parsers on mostly-concrete texts with 1-2 symbolic characters placed on each arithmetic boundary (2^32, 2^64, 249/250, 255/256, 16-bit hex), one arbitrary 7-bit byte injected at 4 positions of a valid text, and concrete structural cases",
        "unwind": "34 (longest text 26 bytes + memchr/word loops), unwinding assertions on",
    },
    "models": [
        "stub (text harnesses): core::slice::memchr::memchr -> byte loop (the word-at-a-time/aligned variant for >=16-byte haystacks does not finish in CBMC even on concrete text)",
        "stub (c10_parse_kernel_all_values only): <u64 as FromStr>::from_str, <u8 as FromStr>::from_str, u16::from_str_radix -> arbitrary Ok(value)/Err; in the native replay build the same values are printed into text and parsed by the real std parsers",
    ],
    "assumptions": [
        "std's integer parsers and splitn do not panic (they are std; only the boundary families execute them symbolically)",
        "symbolic text characters are ASCII digits / hex digits / 7-bit bytes as stated per harness",
    ],
    "outside": [
        "archive through the AllocSerializer used by rkyv::to_bytes (the harness uses the plain AlignedSerializer; a timestamp needs neither scratch space nor the shared-pointer map)",
        "arbitrary text of length >= 5 in general form (7 symbolic bytes did not finish in 25 min in the design probe)",
        "print-then-parse identity for arbitrary stamps through core::fmt (symbolic Display output is beyond reach); it is decided for the numeric encoding, and for text on the boundary families",
    ],
}


MANIFEST = {
    "text": "Bounded model checking (SAT) of the real pack/accessor/Ord code over all valid field quadruples and all u64 pairs "
            "(lossless, order = lexicographic on (time, counter, node)), and of FromStr: the numeric kernel for every combination of "
            "parsed field values via stubbed std integer parsers (no panic, fields kept, out-of-range refused), plus the real parsers "
            "on boundary-placed mostly-concrete text. General text of length >= 5 and the Display round trip for arbitrary stamps "
            "are outside the claim.",
    "note": "Trusts Kani/CBMC, std's integer parsers and splitn not panicking, the memchr byte-loop model; text families are bounded as listed in the evidence.",
    "technique": "Kani/CBMC bounded model checking of the compiled source; symbolic fields / parsed values / boundary characters; native replay",
}


def build(ws, tier, seed, mode):
    d, mounted = common.build_crdt_timestamp_only(ws, mode, ["harness_c09.rs", "harness_c10.rs"])
    feats = ("verif_replay", "rkyv-support") if mode == "replay" else ("rkyv-support",)
    return {"crates": {"crdt": {"dir": d, "features": feats}}, "mounted": mounted}


def harnesses(tier, seed):
    def h(name, what, bounds="", t=600, mem=12, covers=1):
        return {"name": name, "crate": "crdt", "timeout_s": t, "mem_gb": mem, "min_covers": covers, "what": what, "bounds": bounds}
    hs = [
        h("c10_fields_roundtrip", "new() -> accessors -> duration -> new() is the identity; bit layout 32|8|16|8", "all valid quadruples"),
        h("c10_order_is_lexicographic", "Ord/PartialOrd/Eq on stamps == lexicographic order on (seconds, fractional, counter, node)", "all pairs of u64"),
        h("c10_u64_roundtrip", "from_u64/as_u64 round-trip both ways", "all u64"),
        h("c10_archive_roundtrip", "rkyv archive of a stamp is its 8-byte little-endian packed form and ArchivedHLCTimestamp::cast returns the stamp", "all valid quadruples"),
        h("c10_parse_kernel_all_values", "from_str never panics and keeps the parsed fields, for every combination of parsed values",
          "all (u64,u8,u16,u8) + per-field failures", covers=2),
        h("c10_parse_structure", "missing/empty/extra fields, signs, non-hex counter are refused; padded text parses", "concrete texts"),
        h("c10_parse_node_edges", "node 250..259", "1 symbolic digit", covers=2),
        h("c10_parse_longest_canonical", "the longest text Display produces (25 bytes, zero-padded fields) parses to its fields", "1 symbolic digit", covers=1),
    ]
    if tier == "thorough":
        hs += [
            h("c10_fields_truncation", "sub-4ms precision is truncated, never carried", "all (u32 s, ms<1000)", t=1800),
            h("c10_parse_counter_edges", "counter FFFd / 1000d", "1 symbolic hex digit x2", t=1800, mem=24),
            h("c10_parse_fractional_edges", "fraction 200..299 with seconds at 2^32-1", "2 symbolic digits", t=1800, mem=24, covers=3),
            h("c10_parse_seconds_2p32", "seconds 4294967200..4294967299", "2 symbolic digits", t=2400, mem=40, covers=2),
            h("c10_parse_seconds_2p64", "seconds 1844674407370955161d with a fraction", "1 symbolic digit", t=2400, mem=40, covers=2),
            h("c10_parse_arbitrary_byte_p3", "arbitrary 7-bit byte at position 3", "1 symbolic byte", t=1800, mem=24, covers=2),
            h("c10_parse_arbitrary_byte_p0", "arbitrary 7-bit byte at position 0", "1 symbolic byte", t=1800, mem=24, covers=2),
            h("c10_parse_arbitrary_byte_p6", "arbitrary 7-bit byte at position 6", "1 symbolic byte", t=1800, mem=24, covers=2),
            h("c10_parse_arbitrary_byte_p10", "arbitrary 7-bit byte at position 10", "1 symbolic byte", t=1800, mem=24, covers=2),
        ]
    return hs

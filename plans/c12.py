"""C12 — RPC delivers exactly the bytes sent; damaged or short frames are rejected (codec level)."""
import os
import shutil

import dcv
from plans import common

PROP = "C12"

RPCV_CARGO = """[package]
name = "rpcv"
version = "0.0.0"
edition = "2021"

[dependencies]
datacake-rpc = { path = "../datacake-rpc" }
rkyv = { version = "0.7.42", features = ["strict"] }
crc32fast = "1.3.2"

[workspace]

[lints.rust]
unexpected_cfgs = { level = "allow" }

[profile.dev]
debug = 1
"""

META = {
    "functions": [
        ("datacake-rpc/src/rkyv_tooling/view.rs", ["using", "deserialize_view", "as_bytes"]),
        ("datacake-rpc/src/rkyv_tooling/mod.rs", ["to_view_bytes"]),
        ("datacake-rpc/src/rkyv_tooling/scratch.rs", ["push_scratch", "pop_scratch"]),
    ],
    "bounds": {
        "message_types": "Fixed{u32,u16,u16} (8-byte archive), WithBytes{u64, Vec<u8>} with payload length 0 and 1, Status{code, message} with message length 0 and 4 (one harness per concrete instantiation and length)",
        "short_frames": "Fixed: every byte string of every length 0..11; WithBytes: lengths 4,8,12,16,19 (< 16+4); Status: lengths 4, 11 (< 12+4)",
        "exactness": "every 12-byte frame: accepted iff trailer == CRC-32(body) against a bitwise reference CRC, fields = little-endian body",
        "bit_flips": "every value of Fixed x every one of the 96 bit positions of its frame",
        "truncation": "every value of Fixed, frame cut to 11,10,8,5,4,1 bytes",
        "unwind": "34, unwinding assertions on",
    },
    "models": [
        "stub: crc32fast::Hasher::internal_new_specialized -> None (cpuid/PCLMULQDQ inline asm cannot be encoded; the crate's portable table-driven CRC is what is checked; the SIMD path is assumed equivalent per crc32fast's contract)",
        "stub: std::collections::hash_map::RandomState::new -> fixed keys (SharedSerializeMap::new would call getrandom)",
        "reference model: 12-line bitwise CRC-32 in the harness (differential oracle)",
    ],
    "assumptions": [
        "hyper delivers the frame bytes unchanged between to_view_bytes and DataView::using (transport is outside the claim)",
        "a refused frame runs no handler: by construction of RequestContents::from_body (`?` on DataView::using) - that code sits behind hyper::Body which Kani cannot compile (ICE), so it is argued, not decided",
    ],
    "outside": ["message types carrying shared pointers (Arc/Rc): rkyv's SharedSerializeMap is a hashbrown map keyed by pointer addresses; a two-send harness did not get through symbolic execution in 900 s (tried, removed) - so state carried from one to_view_bytes call to the next on the same thread is NOT decided", "frames longer than 32 bytes", "message types other than the three instantiations", "the HTTP/2 transport, client/server tasks",
                "pointer validity inside *accepted* frames of variable-size types (rkyv's unchecked relative pointers)"],
}

MANIFEST = {
    "text": "Bounded model checking (SAT) of the real DataView::using / deserialize_view / to_view_bytes with the real rkyv and the real "
            "table-driven crc32fast: every byte string below the fixed size is refused without panic or out-of-bounds access; every "
            "12-byte frame is accepted iff its trailer is the CRC-32 of its body (differential against a bitwise reference CRC); every "
            "single-bit flip and truncation of every Fixed frame is refused; round trips for three concrete message instantiations "
            "(fixed, bytes payload, Status) over all field values. Codec level only: transport and handler dispatch are outside the claim.",
    "note": "Trusts Kani/CBMC, the two environment stubs (crc32fast SIMD selection -> portable path; RandomState::new -> fixed keys), and the bitwise CRC reference.",
    "technique": "Kani/CBMC bounded model checking of the compiled source; symbolic frames and message values; differential CRC oracle; native replay",
}


def build(ws, tier, seed, mode):
    rpc = ws.path("datacake-rpc")
    os.makedirs(rpc, exist_ok=True)
    mounted = []
    # the whole crate, verbatim
    shutil.copy(os.path.join(dcv.REPO, "datacake-rpc/Cargo.toml"), os.path.join(rpc, "Cargo.toml"))
    for root, _, files in os.walk(os.path.join(dcv.REPO, "datacake-rpc/src")):
        for fn in files:
            src = os.path.join(root, fn)
            rel = os.path.relpath(src, dcv.REPO)
            mounted.append(dcv.mount(rel, os.path.join(ws.root, rel)))
    d = ws.path("rpcv")
    os.makedirs(os.path.join(d, "src"), exist_ok=True)
    dcv.write(os.path.join(d, "Cargo.toml"), RPCV_CARGO)
    common.lockfile(d)
    shutil.copy(os.path.join(dcv.ENCODE, "harness_c12.rs"), os.path.join(d, "src/lib.rs"))
    keep = [m for m in mounted if "rkyv_tooling" in m["source"] or m["source"].endswith("net/status.rs") or m["source"].endswith("src/lib.rs")]
    return {"crates": {"rpcv": {"dir": d, "features": ()}}, "mounted": keep}


def harnesses(tier, seed):
    def h(name, what, bounds="", t=900, mem=12, covers=1):
        return {"name": name, "crate": "rpcv", "timeout_s": t, "mem_gb": mem, "min_covers": covers, "what": what, "bounds": bounds}
    hs = [
        h("c12_short_fixed_len_0_3", "frames shorter than the trailer are refused", "all byte strings of length 0..3", covers=4),
        h("c12_short_fixed_len_4_7", "short frames (incl. the all-zero 4-byte frame whose checksum matches) are refused, no panic/OOB", "all byte strings of length 4..7", covers=4),
        h("c12_short_fixed_len_8_11", "short frames are refused, no panic/OOB", "all byte strings of length 8..11", covers=4),
        h("c12_short_withbytes_len_4_12", "short frames for a variable-size message type", "all byte strings of length 4, 8, 12", covers=3),
        h("c12_fixed_accept_iff_checksum", "accepted iff trailer == CRC-32(body); view shows the LE fields", "all 12-byte frames", covers=2),
        h("c12_fixed_roundtrip", "to_view_bytes -> using -> ==/deserialize_view is the identity; trailer is CRC-32", "all Fixed values"),
        h("c12_fixed_bitflip_refused", "every single-bit corruption of a valid frame is refused", "all Fixed values x 96 bit positions", covers=2),
        h("c12_small_types_roundtrip", "3-byte, 6-byte and bare-enum messages arrive unchanged; frame = archive + 4 bytes", "all values", covers=1),
        h("c12_status_roundtrip_len4", "a handler error reaches the client with the same code and message", "5 codes x all 4-char printable messages"),
    ]
    if tier == "thorough":
        hs += [
            h("c12_large_frame_tail_protected", "5016-byte body: a frame and its single-bit corruption in the last 20 bytes are never both accepted (receiver side)",
              "5000 concrete zero bytes + symbolic 16-byte fixed part + symbolic trailer x 160 bit positions", t=3000, mem=24, covers=2),
            h("c12_short_withbytes_len_16_19", "short frames for a variable-size message type", "all byte strings of length 16, 19", t=2400, mem=24, covers=2),
            h("c12_short_status_len_4_11", "short frames for Status", "all byte strings of length 4, 11", t=2400, mem=24, covers=2),
            h("c12_fixed_truncation_refused", "every truncation of a valid fixed frame is refused", "all Fixed values x 6 cut points", t=2400, mem=24),
            h("c12_withbytes_roundtrip_len0", "bytes payload round trip", "all ids, empty payload", t=2400, mem=24),
            h("c12_withbytes_roundtrip_len1", "bytes payload round trip", "all ids x all 1-byte payloads", t=3000, mem=40),
            h("c12_status_roundtrip_len0", "Status round trip, empty message", "5 codes", t=2400, mem=24),
        ]
    return hs

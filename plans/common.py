"""Shared workspace builders (regenerated from /repo on every run)."""
import os
import re

import dcv

ENC = dcv.ENCODE

CRDT_CARGO = """[package]
name = "datacake-crdt"
version = "0.5.0"
edition = "2021"

[dependencies]
{deps}

[features]
rkyv-support = ["rkyv"]
rkyv-validation = ["rkyv-support", "rkyv/validation"]
{extra_features}

[workspace]

[lints.rust]
unexpected_cfgs = {{ level = "allow" }}

[profile.dev]
debug = 1
"""

# replay-only environment rewrite: the wall clock reads the recorded concrete values
REPLAY_CLOCK_RULE = (
    r"pub fn get_datacake_timestamp\(\) -> Duration \{\n",
    "pub fn get_datacake_timestamp() -> Duration {\n    #[cfg(kani)]\n    { return verif_env::wall(); }\n    #[allow(unreachable_code)]\n",
    1,
)


def crdt_dependencies():
    """[dependencies] of the real datacake-crdt/Cargo.toml, verbatim."""
    text = dcv.read_repo("datacake-crdt/Cargo.toml")
    m = re.search(r"^\[dependencies\]\n(.*?)(?=^\[)", text, flags=re.S | re.M)
    return m.group(1).strip()


def lockfile(dst_dir):
    import shutil
    shutil.copy(os.path.join(dcv.REPO, "Cargo.lock"), os.path.join(dst_dir, "Cargo.lock"))


def build_crdt_timestamp_only(ws, mode, harness_files, name="crdt", features=()):
    """datacake-crdt with the real lib.rs / orswot.rs and timestamp.rs + appended harness modules."""
    d = ws.path(name)
    os.makedirs(os.path.join(d, "src"), exist_ok=True)
    dcv.write(os.path.join(d, "Cargo.toml"), CRDT_CARGO.format(deps=crdt_dependencies(), extra_features="verif_replay = []"))
    lockfile(d)
    mounted = []
    mounted.append(dcv.mount("datacake-crdt/src/lib.rs", os.path.join(d, "src/lib.rs")))
    mounted.append(dcv.mount("datacake-crdt/src/orswot.rs", os.path.join(d, "src/orswot.rs")))
    rules = [REPLAY_CLOCK_RULE] if mode == "replay" else []
    mounted.append(dcv.mount("datacake-crdt/src/timestamp.rs", os.path.join(d, "src/timestamp.rs"),
                             rewrites=rules, append=[os.path.join(ENC, h) for h in harness_files]))
    return d, mounted


# ---------------------------------------------------------------------------------------------
# datacake-crdt regenerated with the solver-friendly container models (M-rewrite of orswot.rs)

ORSWOT_REWRITES = [
    (r"^use std::collections::btree_map::Entry;$", "use crate::vcoll::btree_map::Entry;", 1),
    (r"^use std::collections::\{BTreeMap, HashMap, HashSet\};$",
     "use crate::vcoll::{BTreeMap, HashMap, HashSet, Vec};\nuse crate::vcoll_vec as vec;", 1),
    (r"pub fn as_bytes\(&self\) -> Result<Vec<u8>, BadState>", "pub fn as_bytes(&self) -> Result<std::vec::Vec<u8>, BadState>", 1),
]

VCOLL_CFG = """// generated per run: container bounds of this encoding
pub const KEYS: usize = {keys};
pub const NODES: usize = {nodes};
pub const DOM: usize = {dom};
pub const VCAP: usize = {vcap};
"""


def build_crdt_vcoll(ws, mode, harness_files, keys, nodes, vcap=None, name="crdt", timestamp_harness=(), extra_unwind=0,
                     features_decl="verif_replay = []"):
    """The whole datacake-crdt crate: Cargo deps and lib.rs from /repo, timestamp.rs verbatim, orswot.rs with the
    container import rewrites (solve mode) or verbatim (replay mode: std containers), harness modules appended."""
    d = ws.path(name)
    os.makedirs(os.path.join(d, "src"), exist_ok=True)
    dom = max(keys, nodes)
    vcap = vcap or 2 * keys
    unwind = max(dom, vcap) + 2 + extra_unwind
    dcv.write(os.path.join(d, "Cargo.toml"), CRDT_CARGO.format(deps=crdt_dependencies(), extra_features=features_decl))
    lockfile(d)
    mounted = []
    extra_mods = "\n#[allow(dead_code)]\nmod vcoll_cfg;\n"
    if mode == "solve":
        extra_mods += "#[allow(dead_code)]\nmod vcoll;\n"
    lib = dcv.mount("datacake-crdt/src/lib.rs", os.path.join(d, "src/lib.rs"))
    with open(os.path.join(d, "src/lib.rs"), "a") as f:
        f.write("\n// ---- appended by /verif ----" + extra_mods)
    mounted.append(lib)
    dcv.write(os.path.join(d, "src/vcoll_cfg.rs"), VCOLL_CFG.format(keys=keys, nodes=nodes, dom=dom, vcap=vcap))
    if mode == "solve":
        import shutil
        shutil.copy(os.path.join(ENC, "vcoll.rs"), os.path.join(d, "src/vcoll.rs"))
    ts_rules = [REPLAY_CLOCK_RULE] if (mode == "replay" and timestamp_harness) else []
    mounted.append(dcv.mount("datacake-crdt/src/timestamp.rs", os.path.join(d, "src/timestamp.rs"), rewrites=ts_rules,
                             append=[os.path.join(ENC, h) for h in timestamp_harness]))
    rules = ORSWOT_REWRITES if mode == "solve" else []
    mounted.append(dcv.mount("datacake-crdt/src/orswot.rs", os.path.join(d, "src/orswot.rs"), rewrites=rules,
                             append=[os.path.join(ENC, h) for h in harness_files],
                             subst={"@@UNWIND@@": unwind}))
    return d, mounted, {"KEYS": keys, "NODES": nodes, "DOM": dom, "VCAP": vcap, "unwind": unwind}

"""Shared workspace builders (regenerated from /repo on every run)."""
import os
import re

import dcv

ENC = dcv.ENCODE

CRDT_CARGO = """[package]
name = "datacake-crdt"
version = "0.5.0"
edition = "2021"

[dependencies]
{deps}

[features]
rkyv-support = ["rkyv"]
rkyv-validation = ["rkyv-support", "rkyv/validation"]
{extra_features}

[workspace]

[lints.rust]
unexpected_cfgs = {{ level = "allow" }}

[profile.dev]
debug = 1
"""

# replay-only environment rewrite: the wall clock reads the recorded concrete values
REPLAY_CLOCK_RULE = (
    r"pub fn get_datacake_timestamp\(\) -> Duration \{\n",
    "pub fn get_datacake_timestamp() -> Duration {\n    #[cfg(kani)]\n    { return verif_env::wall(); }\n    #[allow(unreachable_code)]\n",
    1,
)


def crdt_dependencies():
    """[dependencies] of the real datacake-crdt/Cargo.toml, verbatim."""
    text = dcv.read_repo("datacake-crdt/Cargo.toml")
    m = re.search(r"^\[dependencies\]\n(.*?)(?=^\[)", text, flags=re.S | re.M)
    return m.group(1).strip()


def lockfile(dst_dir):
    import shutil
    shutil.copy(os.path.join(dcv.REPO, "Cargo.lock"), os.path.join(dst_dir, "Cargo.lock"))


def build_crdt_timestamp_only(ws, mode, harness_files, name="crdt", features=()):
    """datacake-crdt with the real lib.rs / orswot.rs and timestamp.rs + appended harness modules."""
    d = ws.path(name)
    os.makedirs(os.path.join(d, "src"), exist_ok=True)
    dcv.write(os.path.join(d, "Cargo.toml"), CRDT_CARGO.format(deps=crdt_dependencies(), extra_features="verif_replay = []"))
    lockfile(d)
    mounted = []
    mounted.append(dcv.mount("datacake-crdt/src/lib.rs", os.path.join(d, "src/lib.rs")))
    mounted.append(dcv.mount("datacake-crdt/src/orswot.rs", os.path.join(d, "src/orswot.rs")))
    rules = [REPLAY_CLOCK_RULE] if mode == "replay" else []
    mounted.append(dcv.mount("datacake-crdt/src/timestamp.rs", os.path.join(d, "src/timestamp.rs"),
                             rewrites=rules, append=[os.path.join(ENC, h) for h in harness_files]))
    return d, mounted

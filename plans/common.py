"""Shared workspace builders (regenerated from /repo on every run)."""
import os
import re

import dcv

ENC = dcv.ENCODE

CRDT_CARGO = """[package]
name = "datacake-crdt"
version = "0.5.0"
edition = "2021"

[dependencies]
{deps}

[features]
rkyv-support = ["rkyv"]
rkyv-validation = ["rkyv-support", "rkyv/validation"]
{extra_features}

[workspace]

[lints.rust]
unexpected_cfgs = {{ level = "allow" }}

[profile.dev]
debug = 1
"""

# replay-only environment rewrite: the wall clock reads the recorded concrete values
REPLAY_CLOCK_RULE = (
    r"pub fn get_datacake_timestamp\(\) -> Duration \{\n",
    "pub fn get_datacake_timestamp() -> Duration {\n    #[cfg(kani)]\n    { return verif_env::wall(); }\n    #[allow(unreachable_code)]\n",
    1,
)


def crdt_dependencies():
    """[dependencies] of the real datacake-crdt/Cargo.toml, verbatim."""
    text = dcv.read_repo("datacake-crdt/Cargo.toml")
    m = re.search(r"^\[dependencies\]\n(.*?)(?=^\[)", text, flags=re.S | re.M)
    return m.group(1).strip()


def lockfile(dst_dir):
    import shutil
    shutil.copy(os.path.join(dcv.REPO, "Cargo.lock"), os.path.join(dst_dir, "Cargo.lock"))


def build_crdt_timestamp_only(ws, mode, harness_files, name="crdt", features=()):
    """datacake-crdt with the real lib.rs / orswot.rs and timestamp.rs + appended harness modules."""
    d = ws.path(name)
    os.makedirs(os.path.join(d, "src"), exist_ok=True)
    dcv.write(os.path.join(d, "Cargo.toml"), CRDT_CARGO.format(deps=crdt_dependencies(), extra_features="verif_replay = []"))
    lockfile(d)
    mounted = []
    mounted.append(dcv.mount("datacake-crdt/src/lib.rs", os.path.join(d, "src/lib.rs")))
    mounted.append(dcv.mount("datacake-crdt/src/orswot.rs", os.path.join(d, "src/orswot.rs")))
    rules = [REPLAY_CLOCK_RULE] if mode == "replay" else []
    mounted.append(dcv.mount("datacake-crdt/src/timestamp.rs", os.path.join(d, "src/timestamp.rs"),
                             rewrites=rules, append=[os.path.join(ENC, h) for h in harness_files]))
    return d, mounted


# ---------------------------------------------------------------------------------------------
# datacake-crdt regenerated with the solver-friendly container models (M-rewrite of orswot.rs)

ORSWOT_REWRITES = [
    (r"^use std::collections::btree_map::Entry;$", "use crate::vcoll::btree_map::Entry;", 1),
    (r"^use std::collections::\{BTreeMap, HashMap, HashSet\};$",
     "use crate::vcoll::{BTreeMap, HashMap, HashSet, Vec};\nuse crate::vcoll_vec as vec;", 1),
    (r"pub fn as_bytes\(&self\) -> Result<Vec<u8>, BadState>", "pub fn as_bytes(&self) -> Result<std::vec::Vec<u8>, BadState>", 1),
    # the crate's own unit tests (only compiled for the native encoder validation): an explicit macro import wins over the glob
    (r"^mod tests \{\n", "mod tests {\n    #[allow(unused_imports)]\n    use crate::vcoll_vec as vec;\n", 1),
]

# The native replay runs as a `cargo test` (Kani playback), i.e. with cfg(test) set, under which the crate compiles its
# forgiveness period to ZERO.  The replay must exercise the configuration every real build (and the solver build) uses.
ORSWOT_REPLAY_REWRITES = [
    (r"pub const FORGIVENESS_PERIOD: Duration = if cfg!\(test\) \{", "pub const FORGIVENESS_PERIOD: Duration = if cfg!(verif_never_set) {", 1),
]

VCOLL_CFG = """// generated per run: container bounds of this encoding
pub const KEYS: usize = {keys};
pub const NODES: usize = {nodes};
pub const DOM: usize = {dom};
pub const VCAP: usize = {vcap};
"""


def build_crdt_vcoll(ws, mode, harness_files, keys, nodes, vcap=None, name="crdt", timestamp_harness=(), extra_unwind=0,
                     features_decl="verif_replay = []", export_api=False, suffix=""):
    """The whole datacake-crdt crate: Cargo deps and lib.rs from /repo, timestamp.rs verbatim, orswot.rs with the
    container import rewrites (solve mode) or verbatim (replay mode: std containers), harness modules appended."""
    d = ws.path(name)
    os.makedirs(os.path.join(d, "src"), exist_ok=True)
    dom = max(keys, nodes)
    vcap = vcap or 2 * keys
    unwind = max(dom, vcap) + 2 + extra_unwind
    dcv.write(os.path.join(d, "Cargo.toml"), CRDT_CARGO.format(deps=crdt_dependencies(), extra_features=features_decl))
    lockfile(d)
    mounted = []
    extra_mods = "\n#[allow(dead_code)]\nmod vcoll_cfg;\n"
    if mode == "solve":
        extra_mods += "#[allow(dead_code)]\nmod vcoll;\n"
    if export_api:
        extra_mods += "#[cfg(kani)]\npub use orswot::verif_api;\n"
    lib = dcv.mount("datacake-crdt/src/lib.rs", os.path.join(d, "src/lib.rs"))
    with open(os.path.join(d, "src/lib.rs"), "a") as f:
        f.write("\n// ---- appended by /verif ----" + extra_mods)
    mounted.append(lib)
    dcv.write(os.path.join(d, "src/vcoll_cfg.rs"), VCOLL_CFG.format(keys=keys, nodes=nodes, dom=dom, vcap=vcap))
    if mode == "solve":
        import shutil
        shutil.copy(os.path.join(ENC, "vcoll.rs"), os.path.join(d, "src/vcoll.rs"))
    ts_rules = [REPLAY_CLOCK_RULE] if (mode == "replay" and timestamp_harness) else []
    mounted.append(dcv.mount("datacake-crdt/src/timestamp.rs", os.path.join(d, "src/timestamp.rs"), rewrites=ts_rules,
                             append=[os.path.join(ENC, h) for h in timestamp_harness]))
    rules = ORSWOT_REWRITES if mode == "solve" else ORSWOT_REPLAY_REWRITES
    mounted.append(dcv.mount("datacake-crdt/src/orswot.rs", os.path.join(d, "src/orswot.rs"), rewrites=rules,
                             append=[os.path.join(ENC, h) for h in harness_files],
                             subst={"@@UNWIND@@": unwind, "@@SFX@@": suffix}))
    return d, mounted, {"KEYS": keys, "NODES": nodes, "DOM": dom, "VCAP": vcap, "unwind": unwind}


def validate_vcoll(ws, logs_dir, seed=0):
    """Encoder validation (not the deciding step): (1) the repository's own orswot/timestamp unit tests are compiled against the
    container models and run natively; they must pass exactly as they do on std. (2) a native differential test drives the
    models and std::collections with the same random call sequences."""
    import shutil
    sub = dcv.Scratch.__new__(dcv.Scratch)
    sub.root = ws.path("validate")
    sub.keep = True
    os.makedirs(sub.root, exist_ok=True)
    d, _, _ = build_crdt_vcoll(sub, "solve", [], keys=8, nodes=8, vcap=16, name="crdt_validate")
    with open(os.path.join(d, "src/vcoll.rs"), "a") as f:
        f.write(open(os.path.join(ENC, "vcoll_difftest.rs")).read())
    env = dict(dcv.ENV)
    env["CARGO_TARGET_DIR"] = os.path.join(sub.root, "target_validate")
    env["VERIF_SEED"] = str(seed)
    rc, out, to = dcv.run_cmd(["cargo", "test", "--offline", "--lib"], d, 900, log_path=os.path.join(logs_dir, "validate_vcoll.log"), env=env)
    import re
    m = re.search(r"test result: (\w+)\. (\d+) passed; (\d+) failed", out)
    ok = bool(m) and m.group(1) == "ok" and int(m.group(3)) == 0 and rc == 0 and not to
    passed = int(m.group(2)) if m else 0
    # the same unit tests on the untouched crate, for the count comparison
    d2, _ = build_crdt_timestamp_only(sub, "solve", [], name="crdt_std")
    rc2, out2, to2 = dcv.run_cmd(["cargo", "test", "--offline", "--lib"], d2, 900, log_path=os.path.join(logs_dir, "validate_std.log"), env=env)
    m2 = re.search(r"test result: (\w+)\. (\d+) passed; (\d+) failed", out2)
    passed_std = int(m2.group(2)) if m2 else -1
    shutil.rmtree(sub.root, ignore_errors=True)
    detail = "repo unit tests through vcoll: %d passed (std build: %d passed) + 3 differential tests" % (passed - 3, passed_std)
    if ok and passed - 3 != passed_std:
        ok = False
        detail += " -- COUNT MISMATCH"
    if not ok:
        tail = [l for l in out.strip().split("\n") if l.strip()][-10:]
        detail += " | " + " | ".join(tail)[:1200]
    return [{"name": "vcoll_vs_std", "ok": ok, "tests_passed": passed if ok else 0, "detail": detail}]


# ---------------------------------------------------------------------------------------------
# keyspace actor mount: real core.rs / storage.rs / keyspace/messages.rs / keyspace/actor.rs in a scratch crate,
# neighbours that cannot run under Kani replaced at the crate boundary by shim crates of the same name

ECV_CARGO = """[package]
name = "ecv"
version = "0.0.0"
edition = "2021"

[dependencies]
thiserror = "1"
async-trait = "0.1.58"
crossbeam-utils = "0.8.14"
smallvec = "1"
rkyv = { version = "0.7.42", features = ["strict", "validation", "smallvec"] }
puppet = { path = "../puppet" }
datacake-rpc = { path = "../datacake-rpc" }
datacake-node = { path = "../datacake-node" }
datacake-crdt = { path = "../datacake-crdt", features = ["rkyv-support"] }

[features]
verif_replay = ["datacake-crdt/verif_replay"]

[workspace]

[lints.rust]
unexpected_cfgs = { level = "allow" }

[profile.dev]
debug = 1
"""

ECV_LIB = """// generated root of the actor mount: the module tree of datacake-eventual-consistency restricted to the mounted files
#![allow(dead_code, unused_imports)]
mod core;
mod keyspace;
mod storage;

pub use storage::{BulkMutationError, ProgressTracker, PutContext, Storage};

pub use self::core::{Document, DocumentMetadata};
use crate::core::DocVec;
"""

ECV_KEYSPACE_MOD = """mod actor;
mod messages;

pub use actor::{spawn_keyspace, KeyspaceActor};
pub use messages::{Del, Diff, LastUpdated, MultiDel, MultiSet, Serialize, Set, NUM_SOURCES};

pub const CONSISTENCY_SOURCE_ID: usize = 0;
pub const READ_REPAIR_SOURCE_ID: usize = 1;
"""

ACTOR_REWRITES = [
    # the partial-failure paths build a std HashSet<&Key> (SipHash + OS RNG + hashbrown): container model instead
    # (any `use std::collections::...;` line of the file is redirected, so that a refactor to another std container does not
    # make the regeneration fail)
    (r"^use std::collections::(.+);$", r"use datacake_crdt::verif_api::coll::\1;", 1),
    # the bulk handlers collect (id, stamp) pairs into a std Vec under a symbolic filter and sort it (driftsort on a
    # symbolic-length heap Vec does not finish in an hour): fixed-capacity Vec model with a stable constant-bound sort
    (r"let mut valid_entries = Vec::with_capacity\(msg\.docs\.len\(\)\);",
     "let mut valid_entries = datacake_crdt::verif_api::Vec::with_capacity(msg.docs.len());", 2),
]


# replay build = `cargo test`: keep the crate's own cfg(test) items (which need unmounted modules / tracing) out of it
ACTOR_REPLAY_REWRITES = [
    (r"^#\[cfg\(test\)\]\nmod tests \{", "#[cfg(verif_never_set)]\nmod tests {", 1),
]
STORAGE_REPLAY_REWRITES = [
    (r"#\[cfg\(any\(test, feature = \"test-utils\", feature = \"test-suite\"\)\)\]", "#[cfg(any(feature = \"test-utils\", feature = \"test-suite\"))]", 1),
]

CORE_REWRITES = [
    # bulk requests carry their documents in a SmallVec<[T; 4]> (a union of an inline array and a heap pointer, moved by value
    # into the boxed storage future): CBMC ran out of memory (40 GB) converting a ONE-document bulk delete; the container is
    # environment like the std ones -> fixed-capacity Vec model (same API subset: new/push/len/into_iter)
    (r"^pub\(crate\) type DocVec<T> = SmallVec<\[T; 4\]>;$", "pub(crate) type DocVec<T> = datacake_crdt::verif_api::Vec<T>;", 1),
]

STORAGE_REWRITES = [
    # BulkMutationError carries the ids the store wrote in a heap Vec; under symbolic failure schedules the merged heap
    # shapes do not finish in CBMC -> fixed-capacity IdVec (derefs to &[Key] like the original)
    (r"pub\(crate\) successful_doc_ids: Vec<Key>,", "pub(crate) successful_doc_ids: datacake_crdt::verif_api::IdVec,", 1),
    (r"pub fn new\(error: E, successful_doc_ids: Vec<Key>\) -> Self", "pub fn new(error: E, successful_doc_ids: datacake_crdt::verif_api::IdVec) -> Self", 1),
    (r"Self::new\(error, Vec::new\(\)\)", "Self::new(error, datacake_crdt::verif_api::IdVec::new())", 1),
]


def build_actor_mount(ws, mode, harness_files, keys, nodes, extra_actor_rewrites=(), vcap=None, subdir=""):
    """subdir: a second instance of the whole mount (own copies of the shim crates, datacake-crdt and ecv under
    <scratch>/<subdir>/) with a different Vec capacity."""
    import shutil
    # Vec capacity (default KEYS): bulk requests of at most VCAP documents, purge lists of at most VCAP tombstones (overflow is an assertion failure)
    vcap = vcap or keys

    def sp(name):
        return ws.path(os.path.join(subdir, name)) if subdir else ws.path(name)

    if subdir:
        os.makedirs(ws.path(subdir), exist_ok=True)
    d_crdt, mounted, cfg = build_crdt_vcoll(ws, mode, ["harness_orswot_common.rs"], keys, nodes, vcap=vcap,
                                            name=(os.path.join(subdir, "datacake-crdt") if subdir else "datacake-crdt"), export_api=True)
    for shim in ("datacake-node", "datacake-rpc", "puppet", "puppet-derive"):
        shutil.copytree(os.path.join(ENC, "shims", shim), sp(shim), dirs_exist_ok=True)
    d = sp("ecv")
    os.makedirs(os.path.join(d, "src/keyspace"), exist_ok=True)
    dcv.write(os.path.join(d, "Cargo.toml"), ECV_CARGO)
    lockfile(d)
    dcv.write(os.path.join(d, "src/lib.rs"), ECV_LIB)
    dcv.write(os.path.join(d, "src/keyspace/mod.rs"), ECV_KEYSPACE_MOD)
    base = "datacake-eventual-consistency/src/"
    mounted.append(dcv.mount(base + "core.rs", os.path.join(d, "src/core.rs"), rewrites=(CORE_REWRITES if mode == "solve" else ())))
    mounted.append(dcv.mount(base + "storage.rs", os.path.join(d, "src/storage.rs"), rewrites=(STORAGE_REWRITES if mode == "solve" else STORAGE_REPLAY_REWRITES)))
    mounted.append(dcv.mount(base + "keyspace/messages.rs", os.path.join(d, "src/keyspace/messages.rs")))
    rules = list(ACTOR_REWRITES if mode == "solve" else ACTOR_REPLAY_REWRITES) + list(extra_actor_rewrites)
    mounted.append(dcv.mount(base + "keyspace/actor.rs", os.path.join(d, "src/keyspace/actor.rs"), rewrites=rules,
                             append=[os.path.join(ENC, h) for h in harness_files],
                             subst={"@@UNWIND@@": cfg["unwind"], "@@UNWIND_BULK@@": max(cfg["DOM"], cfg["VCAP"]) + 1}))
    return d, mounted, cfg

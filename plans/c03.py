"""C03 — merging replica states is commutative, associative and idempotent."""
from plans import common

PROP = "C03"
CFG = {"quick": (2, 2), "thorough": (2, 2)}

META = {
    "functions": [
        ("datacake-crdt/src/orswot.rs", ["merge", "compute_safe_last_stamp", "is_ts_before_last_observed_event", "get"]),
    ],
    "bounds": {
        "timestamps": "all stamps of both replicas within one forgiveness period of a symbolic base (the property's second condition); otherwise fully symbolic (fraction, counter, origin)",
        "domain": "KEYS=2 NODES=2, sources N=2 (and N=1 for the join characterisation); associativity at the same domain in the thorough tier only",
        "shape": "ARBITRARY invariant-satisfying replica states built in the private fields; merge at KEYS=3 x NODES=3 does not finish and is outside the claim",
    },
    "models": ["vcoll container models (see C04); Vec capacity = KEYS (the merge log of an invariant state has at most one record per key; overflow is an assertion failure)",
               "HashMap iteration order: one fixed (ascending) order is encoded; merge sorts its log by stamp with a stable sort and distinct keys never interact, so an order-dependent change is outside what this check sees"],
    "assumptions": ["stamps pairwise distinct across the two replicas unless they denote the same operation (same key, same kind)",
                    "all stamps (entries, tombstones, newest-seen) lie within one forgiveness period",
                    "representation invariant over-approximates reachable states"],
    "outside": ["the property's first condition (gap-free prefixes spanning more than one forgiveness period, i.e. merges that interact with purge cut-offs)",
                "more than 2 keys / 2 origins / 2 sources", "three-replica laws in the quick tier"],
}

MANIFEST = {
    "text": "Bounded model checking (SAT) of the real OrSWotSet::merge / NodeVersions::merge on two arbitrary invariant-satisfying replica "
            "states whose stamps lie within one forgiveness period: the merged view of every key is the last-writer-wins join of the two "
            "views and the newest-seen stamps are per-(source, origin) maxima, invariant and window condition preserved - a semilattice "
            "join, hence order/grouping/repetition independent for any number of merges; plus the laws directly (idempotence, "
            "re-merge, commutativity, mutual merge; associativity in the thorough tier) at 2 keys x 2 origins x 2 sources.",
    "note": "Trusts Kani/CBMC, the vcoll container models (fixed HashMap order), the invariant; only the within-one-forgiveness-period condition of the property is covered.",
    "technique": "Kani/CBMC bounded model checking of the compiled source; symbolic replica pairs/triples, LWW-join oracle; native replay",
}


def build(ws, tier, seed, mode):
    keys, nodes = CFG[tier]
    d, mounted, cfg = common.build_crdt_vcoll(ws, mode, ["harness_orswot_common.rs", "harness_c03.rs"], keys, nodes, vcap=keys)
    feats = ("verif_replay",) if mode == "replay" else ()
    return {"crates": {"crdt": {"dir": d, "features": feats}}, "mounted": mounted, "cfg": cfg}


def validate(ws, build, logs_dir):
    return common.validate_vcoll(ws, logs_dir)


def harnesses(tier, seed):
    def h(name, what, t=1500, mem=16, covers=1):
        return {"name": name, "crate": "crdt", "timeout_s": t, "mem_gb": mem, "min_covers": covers, "what": what, "bounds": ""}
    hs = [
        h("c03_merge_is_join_n2", "merged view == LWW join per key; versions == pointwise max; invariant/window preserved", covers=2),
        h("c03_merge_is_join_n1", "same, single source", covers=2),
        h("c03_self_merge_n2", "A+A == A (views and versions)"),
    ]
    if tier == "thorough":
        hs += [
            h("c03_remerge_n2", "(A+B)+B == A+B", t=3600, mem=24),
            h("c03_commutative_n2", "A+B == B+A (views and versions)", t=3600, mem=24),
            h("c03_mutual_merge_n2", "A'=A+B, B'=B+A': indistinguishable", t=5400, mem=32),
            h("c03_associative_n2", "(A+B)+C == A+(B+C)", t=7200, mem=40),
            h("c03_prefix_merge_p3_n1", "FIRST condition of the property: two replicas that each applied a gap-free per-origin prefix of a pool of 3 "
              "operations with arbitrary (any distance) distinct stamps merge each other in both orders: same lookups; re-merge changes nothing",
              t=7200, mem=40, covers=2),
        ]
    return hs

#!/bin/sh
# Run once after a fresh restore, offline.  Nothing persistent is built: every check
# regenerates its scratch workspace from /repo's working tree.  This only verifies the tools.
set -e
cd "$(dirname "$0")"
export CARGO_NET_OFFLINE=true
mkdir -p out evidence
cargo kani --version
cbmc --version
python3 -c "import sys; assert sys.version_info >= (3, 8); print('python ok')"
python3 -c "import json; json.load(open('MANIFEST.json')); json.load(open('known_findings.json')); print('manifest ok')"
